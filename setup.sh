#!/bin/sh
# Run once after a fresh restore (offline).  Warms the build caches the checks use incrementally.
here="$(cd "$(dirname "$0")" && pwd)"
cd "$here"
mkdir -p .cache .work evidence replays
verus --version >/dev/null 2>&1 || { echo "verus not on PATH"; exit 1; }
if [ -x tools/warm.sh ]; then tools/warm.sh || echo "warm-up failed (checks will build on first use)"; fi
exit 0
