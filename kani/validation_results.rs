// unit validation_results: sdk/src/validation_results.rs (included by the cfg(kani) hook at the end of that file)
// C04: ValidationResults::validation_state == the specification taken from the property statement (bounded lists)
//   Valid   <=> active manifest present, claimSignature.validated and claimSignature.insideValidity among the successes,
//               and every failure (active manifest + ingredient deltas) is tolerated
//   Trusted <=> Valid, signingCredential.trusted among the successes and NO failure at all
//   tolerated(c) <=> c == "signingCredential.untrusted" or c starts with "cawg.x509."
#[allow(unused_imports)]
use super::*;


    // code universe: indices 0..6
    const CODES: [&str; 7] = [
        validation_status::CLAIM_SIGNATURE_VALIDATED,
        validation_status::CLAIM_SIGNATURE_INSIDE_VALIDITY,
        validation_status::SIGNING_CREDENTIAL_TRUSTED,
        validation_status::SIGNING_CREDENTIAL_UNTRUSTED,
        "cawg.x509.signature.mismatch",
        "assertion.dataHash.mismatch",
        "zz.unknown",
    ];
    fn tolerated(i: u8) -> bool { i == 3 || i == 4 }

    fn any_codes(out: &mut Vec<ValidationStatus>, idx: &mut [u8; 2]) -> usize {
        let n: usize = kani::any();
        kani::assume(n <= 2);
        let mut k = 0;
        while k < n {
            let c: u8 = kani::any();
            kani::assume((c as usize) < CODES.len());
            idx[k] = c;
            out.push(ValidationStatus::new(CODES[c as usize]));
            k += 1;
        }
        n
    }

    #[kani::proof]
    #[kani::unwind(4)]
    fn c04_state_matches_spec_active_only() {
        let mut sc = StatusCodes::default();
        let mut si = [0u8; 2];
        let mut fi = [0u8; 2];
        let ns = any_codes(&mut sc.success, &mut si);
        let nf = any_codes(&mut sc.failure, &mut fi);
        let has_active: bool = kani::any();
        let mut vr = ValidationResults::default();
        if has_active { vr = vr.add_active_manifest(sc); }
        let st = vr.validation_state();

        let has = |c: u8| -> bool { (ns > 0 && si[0] == c) || (ns > 1 && si[1] == c) };
        let all_tol = (nf < 1 || tolerated(fi[0])) && (nf < 2 || tolerated(fi[1]));
        let valid = has_active && has(0) && has(1) && all_tol;
        let trusted = valid && has(2) && nf == 0;
        let spec = if trusted { ValidationState::Trusted } else if valid { ValidationState::Valid } else { ValidationState::Invalid };
        assert!(st == spec);
    }

    fn spec_state(has_active: bool, s: &[u8], f_all: &[u8]) -> ValidationState {
        let has = |c: u8| s.iter().any(|x| *x == c);
        let all_tol = f_all.iter().all(|x| tolerated(*x));
        let valid = has_active && has(0) && has(1) && all_tol;
        let trusted = valid && has(2) && f_all.is_empty();
        if trusted { ValidationState::Trusted } else if valid { ValidationState::Valid } else { ValidationState::Invalid }
    }

    #[kani::proof]
    #[kani::unwind(4)]
    fn c04_state_matches_spec_with_delta() {
        // active: 3 success slots (symbolic codes), 1 failure slot optional; one ingredient delta with 0/1 failure
        let mut sc = StatusCodes::default();
        let mut sidx = [0u8; 3];
        let mut k = 0;
        while k < 3 { let c: u8 = kani::any(); kani::assume((c as usize) < CODES.len()); sidx[k] = c; sc.success.push(ValidationStatus::new(CODES[c as usize])); k += 1; }
        let af: bool = kani::any(); let afc: u8 = kani::any(); kani::assume((afc as usize) < CODES.len());
        if af { sc.failure.push(ValidationStatus::new(CODES[afc as usize])); }
        let mut vr = ValidationResults::default().add_active_manifest(sc);
        let df: bool = kani::any(); let dfc: u8 = kani::any(); kani::assume((dfc as usize) < CODES.len());
        let has_delta: bool = kani::any();
        if has_delta {
            let mut d = StatusCodes::default();
            if df { d.failure.push(ValidationStatus::new(CODES[dfc as usize])); }
            vr = vr.add_ingredient_delta(IngredientDeltaValidationResult::new("u", d));
        }
        let st = vr.validation_state();
        let mut fall: Vec<u8> = Vec::new();
        if af { fall.push(afc); }
        if has_delta && df { fall.push(dfc); }
        assert!(st == spec_state(true, &sidx, &fall));
        std::mem::forget(vr);
    }
