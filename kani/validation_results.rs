// unit validation_results: harnesses for sdk/src/validation_results.rs (included by the cfg(kani) hook at the end of that file)
#[allow(unused_imports)]
use super::*;
