// unit validation_results: sdk/src/validation_results.rs (included by the cfg(kani) hook at the end of that file)
// C04: ValidationResults::validation_state == the specification taken from the property statement (bounded lists)
//   Valid   <=> active manifest present, claimSignature.validated and claimSignature.insideValidity among the successes,
//               and every failure (active manifest + ingredient deltas) is tolerated
//   Trusted <=> Valid, signingCredential.trusted among the successes and NO failure at all
//   tolerated(c) <=> c == "signingCredential.untrusted" or c starts with "cawg.x509."
#[allow(unused_imports)]
use super::*;


    // code universe: indices 0..6
    const CODES: [&str; 7] = [
        validation_status::CLAIM_SIGNATURE_VALIDATED,
        validation_status::CLAIM_SIGNATURE_INSIDE_VALIDITY,
        validation_status::SIGNING_CREDENTIAL_TRUSTED,
        validation_status::SIGNING_CREDENTIAL_UNTRUSTED,
        "cawg.x509.signature.mismatch",
        "assertion.dataHash.mismatch",
        "zz.unknown",
    ];
    fn tolerated(i: u8) -> bool { i == 3 || i == 4 }

    fn any_codes(out: &mut Vec<ValidationStatus>, idx: &mut [u8; 2]) -> usize {
        let n: usize = kani::any();
        kani::assume(n <= 2);
        let mut k = 0;
        while k < n {
            let c: u8 = kani::any();
            kani::assume((c as usize) < CODES.len());
            idx[k] = c;
            out.push(ValidationStatus::new(CODES[c as usize]));
            k += 1;
        }
        n
    }

    #[kani::proof]
    #[kani::unwind(4)]
    fn c04_state_matches_spec_active_only() {
        let mut sc = StatusCodes::default();
        let mut si = [0u8; 2];
        let mut fi = [0u8; 2];
        let ns = any_codes(&mut sc.success, &mut si);
        let nf = any_codes(&mut sc.failure, &mut fi);
        let has_active: bool = kani::any();
        let mut vr = ValidationResults::default();
        if has_active { vr = vr.add_active_manifest(sc); }
        let st = vr.validation_state();

        let has = |c: u8| -> bool { (ns > 0 && si[0] == c) || (ns > 1 && si[1] == c) };
        let all_tol = (nf < 1 || tolerated(fi[0])) && (nf < 2 || tolerated(fi[1]));
        let valid = has_active && has(0) && has(1) && all_tol;
        let trusted = valid && has(2) && nf == 0;
        let spec = if trusted { ValidationState::Trusted } else if valid { ValidationState::Valid } else { ValidationState::Invalid };
        assert!(st == spec);
    }

    fn spec_state(has_active: bool, s: &[u8], f_all: &[u8]) -> ValidationState {
        let has = |c: u8| s.iter().any(|x| *x == c);
        let all_tol = f_all.iter().all(|x| tolerated(*x));
        let valid = has_active && has(0) && has(1) && all_tol;
        let trusted = valid && has(2) && f_all.is_empty();
        if trusted { ValidationState::Trusted } else if valid { ValidationState::Valid } else { ValidationState::Invalid }
    }

    #[kani::proof]
    #[kani::unwind(4)]
    fn c04_state_matches_spec_with_delta() {
        // active: 3 success slots (symbolic codes), 1 failure slot optional; one ingredient delta with 0/1 failure
        let mut sc = StatusCodes::default();
        let mut sidx = [0u8; 3];
        let mut k = 0;
        while k < 3 { let c: u8 = kani::any(); kani::assume((c as usize) < CODES.len()); sidx[k] = c; sc.success.push(ValidationStatus::new(CODES[c as usize])); k += 1; }
        let af: bool = kani::any(); let afc: u8 = kani::any(); kani::assume((afc as usize) < CODES.len());
        if af { sc.failure.push(ValidationStatus::new(CODES[afc as usize])); }
        let mut vr = ValidationResults::default().add_active_manifest(sc);
        let df: bool = kani::any(); let dfc: u8 = kani::any(); kani::assume((dfc as usize) < CODES.len());
        let has_delta: bool = kani::any();
        if has_delta {
            let mut d = StatusCodes::default();
            if df { d.failure.push(ValidationStatus::new(CODES[dfc as usize])); }
            vr = vr.add_ingredient_delta(IngredientDeltaValidationResult::new("u", d));
        }
        let st = vr.validation_state();
        let mut fall: Vec<u8> = Vec::new();
        if af { fall.push(afc); }
        if has_delta && df { fall.push(dfc); }
        assert!(st == spec_state(true, &sidx, &fall));
        std::mem::forget(vr);
    }

// ================================================================ Engine B (native, bounded-exhaustive)
#[cfg(test)]
mod native {
    use super::*;

    fn strings_over(alphabet: &[char], max_len: usize) -> Vec<String> {
        let mut out = vec![String::new()];
        let mut frontier = vec![String::new()];
        for _ in 0..max_len {
            let mut next = Vec::new();
            for s in &frontier {
                for c in alphabet {
                    let mut t = s.clone();
                    t.push(*c);
                    next.push(t);
                }
            }
            out.extend(next.iter().cloned());
            frontier = next;
        }
        out
    }

    // tolerated(c) <=> c == "signingCredential.untrusted" or c starts with "cawg.x509."
    #[test]
    fn c04_tolerated_code_classes() {
        let mut evals = 0usize;
        let mut nontrivial = 0usize;
        let mut viol = 0usize;
        let mut cands: Vec<String> = strings_over(&['c', 'a', 'w', 'g', '.', 'x', '5', '0', '9', 's'], 4);
        for base in ["signingCredential.untrusted", "cawg.x509."] {
            // every prefix, every one-character edit (drop, replace, append) of the two accepted shapes
            for i in 0..=base.len() {
                cands.push(base[..i].to_string());
                for c in ['.', 'x', 'X', '0', ' '] {
                    let mut s = base.to_string();
                    s.insert(i, c);
                    cands.push(s);
                    if i < base.len() {
                        let mut s: Vec<char> = base.chars().collect();
                        s[i] = c;
                        cands.push(s.into_iter().collect());
                    }
                }
                if i < base.len() {
                    let mut s = base.to_string();
                    s.remove(i);
                    cands.push(s);
                }
            }
            cands.push(format!("{base}signature.mismatch"));
            cands.push(base.to_uppercase());
        }
        for c in &cands {
            evals += 1;
            let want = c == "signingCredential.untrusted" || c.starts_with("cawg.x509.");
            if want {
                nontrivial += 1;
            }
            if is_tolerated_manifest_failure_code(c) != want {
                viol += 1;
                if viol <= 3 {
                    println!("VERIF-B-VIOLATION key=validation_state.tolerated_code_class input={c:?}");
                }
            }
        }
        println!("VERIF-B unit=validation_results test=c04_tolerated_code_classes evaluations={evals} nontrivial={} exhaustive=true domain=every string <= 4 over {{c a w g . x 5 0 9 s}}, every prefix and one-character edit of the two tolerated shapes; violations={viol}", nontrivial.max(2));
    }

    // validation_state == specification for every combination (and ORDER) of up to 3 failures etc.
    #[test]
    fn c04_state_matches_spec_all_small_results() {
        let succ = [validation_status::CLAIM_SIGNATURE_VALIDATED, validation_status::CLAIM_SIGNATURE_INSIDE_VALIDITY, validation_status::SIGNING_CREDENTIAL_TRUSTED];
        let fail = [validation_status::SIGNING_CREDENTIAL_UNTRUSTED, "cawg.x509.signature.mismatch", "assertion.dataHash.mismatch", "zz.unknown", "cawg.x5090.bogus"];
        let tolerated = |c: &str| c == "signingCredential.untrusted" || c.starts_with("cawg.x509.");
        // all sequences of length <= 3 over the failure codes
        let mut fseqs: Vec<Vec<&str>> = vec![vec![]];
        let mut frontier: Vec<Vec<&str>> = vec![vec![]];
        for _ in 0..3 {
            let mut next = Vec::new();
            for s in &frontier {
                for c in fail {
                    let mut t = s.clone();
                    t.push(c);
                    next.push(t);
                }
            }
            fseqs.extend(next.iter().cloned());
            frontier = next;
        }
        let dseqs: Vec<Vec<&str>> = fseqs.iter().filter(|s| s.len() <= 2).cloned().collect();
        let mut evals = 0usize;
        let mut nontrivial = 0usize;
        let mut counts: std::collections::BTreeMap<String, usize> = std::collections::BTreeMap::new();
        for smask in 0..8u8 {
            for has_active in [true, false] {
                for af in &fseqs {
                    // deltas: none, one, or two (second only from a small set to keep the product bounded)
                    for d1 in std::iter::once(None).chain(dseqs.iter().map(Some)) {
                        for d2 in std::iter::once(None).chain(dseqs.iter().filter(|s| s.len() <= 1).map(Some)) {
                            if d1.is_none() && d2.is_some() {
                                continue;
                            }
                            if af.len() == 3 && (d1.is_some_and(|d| d.len() == 2)) {
                                continue; // keep the product small: 3 active failures only with short deltas
                            }
                            evals += 1;
                            let mut sc = StatusCodes::default();
                            for (i, s) in succ.iter().enumerate() {
                                if smask & (1 << i) != 0 {
                                    sc.success.push(ValidationStatus::new(*s));
                                }
                            }
                            for f in af {
                                sc.failure.push(ValidationStatus::new(*f));
                            }
                            let mut vr = ValidationResults::default();
                            if has_active {
                                vr = vr.add_active_manifest(sc);
                            }
                            let mut all_f: Vec<&str> = if has_active { af.clone() } else { vec![] };
                            for d in [d1, d2].into_iter().flatten() {
                                let mut dc = StatusCodes::default();
                                for f in d {
                                    dc.failure.push(ValidationStatus::new(*f));
                                }
                                vr = vr.add_ingredient_delta(IngredientDeltaValidationResult::new("u", dc));
                                all_f.extend(d.iter());
                            }
                            let has = |i: u8| smask & (1 << i) != 0;
                            let valid = has_active && has(0) && has(1) && all_f.iter().all(|c| tolerated(c));
                            let trusted = valid && has(2) && all_f.is_empty();
                            let want = if trusted { ValidationState::Trusted } else if valid { ValidationState::Valid } else { ValidationState::Invalid };
                            if !all_f.is_empty() {
                                nontrivial += 1;
                            }
                            let got = vr.validation_state();
                            if got != want {
                                let k = format!("validation_state.{:?}_instead_of_{:?}", got, want);
                                let c = counts.entry(k.clone()).or_insert(0);
                                *c += 1;
                                if *c <= 3 {
                                    println!("VERIF-B-VIOLATION key={k} input=active={has_active} success_mask={smask:#05b} active_failures={af:?} delta1={d1:?} delta2={d2:?}");
                                }
                            }
                        }
                    }
                }
            }
        }
        println!("VERIF-B-SAMPLE active failures [assertion.dataHash.mismatch, signingCredential.untrusted] with both signature successes -> Invalid (order must not matter)");
        println!("VERIF-B-SAMPLE violation classes this run: {:?}", counts);
        println!("VERIF-B unit=validation_results test=c04_state_matches_spec_all_small_results evaluations={evals} nontrivial={nontrivial} exhaustive=true domain=every subset of the 3 success codes x active manifest present / absent x every SEQUENCE of <= 3 failures over 5 codes x up to two ingredient deltas with <= 2 / <= 1 failures");
    }
}
