// unit hash_utils: harnesses for sdk/src/utils/hash_utils.rs (included by the cfg(kani) hook at the end of that file)
// C01 (vec_compare), C13 (range hashing), C23 (progress discipline of the hasher).
#[allow(unused_imports)]
use super::*;

// ---------------------------------------------------------------- C01: vec_compare(a, b) <=> a == b
pub(super) fn spec_slices_equal(a: &[u8], b: &[u8]) -> bool {
    if a.len() != b.len() {
        return false;
    }
    let mut i = 0;
    while i < a.len() {
        if a[i] != b[i] {
            return false;
        }
        i += 1;
    }
    true
}

// bounded: slices of length <= 8 (every length pair, every content)
#[kani::proof_for_contract(vec_compare)]
#[kani::unwind(10)]
fn c01_vec_compare_contract() {
    let a: [u8; 8] = kani::any();
    let b: [u8; 8] = kani::any();
    let la: usize = kani::any();
    let lb: usize = kani::any();
    kani::assume(la <= 8 && lb <= 8);
    kani::cover!(la == lb && la > 0, "equal-length case exists");
    kani::cover!(la != lb, "different-length case exists");
    vec_compare(&a[..la], &b[..lb]);
}
