// unit hash_utils: harnesses for sdk/src/utils/hash_utils.rs (included by the cfg(kani) hook at the end of that file)
// C01 (vec_compare), C13 (range hashing), C23 (progress discipline of the hasher).
#[allow(unused_imports)]
use super::*;

// ---------------------------------------------------------------- C01: vec_compare(a, b) <=> a == b
pub(super) fn spec_slices_equal(a: &[u8], b: &[u8]) -> bool {
    if a.len() != b.len() {
        return false;
    }
    let mut i = 0;
    while i < a.len() {
        if a[i] != b[i] {
            return false;
        }
        i += 1;
    }
    true
}

// bounded: slices of length <= 8 (every length pair, every content)
#[kani::proof_for_contract(vec_compare)]
#[kani::unwind(10)]
fn c01_vec_compare_contract() {
    let a: [u8; 8] = kani::any();
    let b: [u8; 8] = kani::any();
    let la: usize = kani::any();
    let lb: usize = kani::any();
    kani::assume(la <= 8 && lb <= 8);
    kani::cover!(la == lb && la > 0, "equal-length case exists");
    kani::cover!(la != lb, "different-length case exists");
    vec_compare(&a[..la], &b[..lb]);
}

// ---------------------------------------------------------------- C13 / C23: the range hasher under Kani
// Stubs (see DESIGN 1.2): threads and channels cannot be compiled by Kani 0.68; paths that reach them are cut
// (assume(false)) - i.e. only the "range fits into one read buffer" path is verified.  Hasher::update appends to a log,
// Hasher::finalize returns a constant: the contract is stated on the bytes FED to the hasher.
use std::panic as sp;
use std::sync::mpsc::{Receiver, Sender};
fn stub_catch<F: FnOnce() -> R + std::panic::UnwindSafe, R>(f: F) -> std::thread::Result<R> {
    Ok(f())
}
fn stub_channel<T>() -> (Sender<T>, Receiver<T>) {
    kani::assume(false);
    unreachable!()
}
fn stub_send<T>(_s: &Sender<T>, _t: T) -> std::result::Result<(), std::sync::mpsc::SendError<T>> {
    kani::assume(false);
    unreachable!()
}
fn stub_recv<T>(_s: &Receiver<T>) -> std::result::Result<T, std::sync::mpsc::RecvError> {
    kani::assume(false);
    unreachable!()
}
fn stub_finalize(_h: Hasher) -> Vec<u8> {
    vec![1u8]
}
fn stub_spawn<F, T>(_b: std::thread::Builder, _f: F) -> std::io::Result<std::thread::JoinHandle<T>>
where
    F: FnOnce() -> T + Send + 'static,
    T: Send + 'static,
{
    kani::assume(false);
    unreachable!()
}

const CAP: usize = 64;
static mut LOG: [u8; CAP] = [0u8; CAP];
static mut LOG_LEN: usize = 0;
fn stub_update(_h: &mut Hasher, data: &[u8]) {
    unsafe {
        let mut i = 0;
        while i < data.len() {
            if LOG_LEN < CAP {
                LOG[LOG_LEN] = data[i];
            }
            LOG_LEN += 1;
            i += 1;
        }
    }
}

// progress discipline (C23): steps start at 1, increase by 1, never exceed a non-zero total
static mut LAST_STEP: u32 = 0;
static mut STEP_OK: bool = true;
fn record_progress(step: u32, total: u32) -> Result<()> {
    unsafe {
        if step != LAST_STEP + 1 || step < 1 || (total != 0 && step > total) {
            STEP_OK = false;
        }
        LAST_STEP = step;
    }
    Ok(())
}

// bounded (2 bytes, no ranges): everything is fed, in order
#[kani::proof]
#[kani::stub(Hasher::update, stub_update)]
#[kani::stub(std::sync::mpsc::channel, stub_channel)]
#[kani::stub(std::thread::Builder::spawn, stub_spawn)]
#[kani::stub(sp::catch_unwind, stub_catch)]
#[kani::stub(std::sync::mpsc::Sender::send, stub_send)]
#[kani::stub(std::sync::mpsc::Receiver::recv, stub_recv)]
#[kani::stub(Hasher::finalize, stub_finalize)]
#[kani::unwind(3)]
fn c13_no_range_hashes_everything() {
    let data: [u8; 2] = kani::any();
    let mut cur = Cursor::new(&data[..]);
    let res = hash_stream_by_alg_with_progress_impl("sha256", &mut cur, None, true, &mut record_progress, NonZeroUsize::new(1 << 20).unwrap());
    assert!(res.is_ok(), "non-empty data without ranges hashes");
    unsafe {
        assert!(LOG_LEN == 2 && LOG[0] == data[0] && LOG[1] == data[1], "exactly the data bytes are fed, in order");
        assert!(STEP_OK, "progress steps positive, increasing, within total");
    }
    std::mem::forget(res);
}

// bounded (<= 3 data bytes) but the range is UNCONSTRAINED in u64 x u64: inclusion mode is what box hashing uses.
// exactness, rejection past the end, no arithmetic overflow / panic for any start and length
#[kani::proof]
#[kani::stub(Hasher::update, stub_update)]
#[kani::stub(std::sync::mpsc::channel, stub_channel)]
#[kani::stub(std::thread::Builder::spawn, stub_spawn)]
#[kani::stub(sp::catch_unwind, stub_catch)]
#[kani::stub(std::sync::mpsc::Sender::send, stub_send)]
#[kani::stub(std::sync::mpsc::Receiver::recv, stub_recv)]
#[kani::stub(Hasher::finalize, stub_finalize)]
#[kani::unwind(4)]
fn c13_inclusion_one_range() {
    let data: [u8; 3] = kani::any();
    let len: usize = kani::any();
    kani::assume(len >= 1 && len <= 3);
    let mut cur = Cursor::new(&data[..len]);
    let s1: u64 = kani::any();
    let l1: u64 = kani::any();
    let hr = vec![HashRange::new(s1, l1)];
    let res = hash_stream_by_alg_with_progress_impl("sha256", &mut cur, Some(hr), false, &mut record_progress, NonZeroUsize::new(1 << 20).unwrap());
    let past_end = s1 as u128 + l1 as u128 > len as u128;
    if past_end {
        assert!(res.is_err(), "a range reaching past the end of the data is rejected");
    }
    if res.is_ok() {
        let mut k = 0usize;
        let mut i = 0usize;
        while i < len {
            let inc = l1 > 0 && (i as u64) >= s1 && ((i as u64) - s1) < l1;
            if inc {
                unsafe {
                    assert!(k < LOG_LEN && LOG[k] == data[i], "every included byte is fed, in order");
                }
                k += 1;
            }
            i += 1;
        }
        unsafe {
            assert!(k == LOG_LEN, "nothing but the included bytes is fed");
            assert!(STEP_OK, "progress steps positive, increasing, within total");
        }
    }
    kani::cover!(res.is_ok() && l1 > 0, "an accepted non-empty range exists");
    kani::cover!(res.is_err(), "a rejected range exists");
    std::mem::forget(res);
}

// (exclusion mode under Kani: not possible - even the rejection-only harness makes CBMC unwind range_set/SmallVec and
// run out of memory (measured: > 60 GB); exclusion mode is decided by the native part below)

// ---------------------------------------------------------------- C13 Engine B: exclusion / inclusion exactness incl. markers
// Reference semantics from the statement, as the byte string whose digest must result.
//   exclusion: positions in order; a marker at p contributes p.to_be_bytes() (before byte p); byte p is hashed iff no
//              non-marker range covers it
//   inclusion: ranges in order of start (stable); a range's marker offset first, then its bytes; empty ranges nothing
#[derive(Clone, Debug)]
struct R {
    start: u64,
    len: u64,
    marker: Option<u64>,
}
fn reference(data: &[u8], rs: &[R], exclusion: bool) -> Option<Vec<u8>> {
    let n = data.len() as u128;
    if n == 0 {
        return None;
    }
    for r in rs {
        if r.start as u128 + r.len as u128 > n {
            return None;
        }
    }
    let mut out = Vec::new();
    if exclusion {
        for p in 0..data.len() {
            if rs.iter().any(|r| r.marker == Some(p as u64)) {
                out.extend_from_slice(&(p as u64).to_be_bytes());
            }
            let ex = rs.iter().any(|r| r.marker.is_none() && r.len > 0 && (p as u64) >= r.start && (p as u64) < r.start + r.len);
            if !ex {
                out.push(data[p]);
            }
        }
    } else {
        let mut v: Vec<&R> = rs.iter().collect();
        v.sort_by_key(|r| r.start);
        for r in v {
            if r.len == 0 {
                continue;
            }
            if let Some(m) = r.marker {
                out.extend_from_slice(&m.to_be_bytes());
            }
            out.extend_from_slice(&data[r.start as usize..(r.start + r.len) as usize]);
        }
    }
    Some(out)
}

fn to_hash_ranges(rs: &[R]) -> Vec<HashRange> {
    rs.iter()
        .map(|r| {
            let mut h = HashRange::new(r.start, r.len);
            if let Some(m) = r.marker {
                h.set_bmff_offset(m);
            }
            h
        })
        .collect()
}

fn classify_exclusion(data_len: usize, rs: &[R], past_end_case: bool) -> &'static str {
    if past_end_case {
        return "hash_range.past_end_accepted";
    }
    let excluded = |p: u64| rs.iter().any(|r| r.marker.is_none() && r.len > 0 && p >= r.start && p < r.start + r.len);
    let is_marker = |p: u64| rs.iter().any(|r| r.marker == Some(p));
    let included: Vec<u64> = (0..data_len as u64).filter(|p| !excluded(*p)).collect();
    for r in rs {
        if let Some(m) = r.marker {
            if !excluded(m) && (m + 1 == data_len as u64 || excluded(m + 1) || is_marker(m + 1)) {
                return "hash_range.marker.single_byte_range_at_marker";
            }
        }
    }
    for r in rs {
        if let Some(m) = r.marker {
            if excluded(m) && (included.is_empty() || m < included[0] || m > *included.last().unwrap_or(&0)) {
                return "hash_range.marker.outside_included_span";
            }
        }
    }
    "hash_range.digest_mismatch"
}

fn eval_case(data: &[u8], rs: &[R], exclusion: bool, alg: &str, buf: usize, counts: &mut std::collections::BTreeMap<String, usize>) {
    let expect = reference(data, rs, exclusion);
    let hr = to_hash_ranges(rs);
    let mut cur = Cursor::new(data);
    let got = std::panic::catch_unwind(std::panic::AssertUnwindSafe(|| {
        hash_stream_by_alg_with_progress_impl(alg, &mut cur, Some(hr), exclusion, &mut |_, _| Ok(()), NonZeroUsize::new(buf).unwrap())
    }));
    let key: Option<String> = match (got, expect) {
        (Err(_), _) => Some("hash_range.panic".to_string()),
        (Ok(Err(_)), None) => None,
        (Ok(Ok(_)), None) => Some(if data.is_empty() { "hash_range.empty_data_accepted".to_string() } else { "hash_range.past_end_accepted".to_string() }),
        (Ok(Err(_)), Some(_)) => Some("hash_range.valid_ranges_rejected".to_string()),
        (Ok(Ok(d)), Some(bytes)) => {
            let mut h = Hasher::new(alg).unwrap();
            h.update(&bytes);
            if Hasher::finalize(h) == d {
                None
            } else if exclusion {
                Some(classify_exclusion(data.len(), rs, false).to_string())
            } else if rs.iter().any(|r| r.len == 1 && rs.iter().any(|q| q.len > 0 && q.marker == Some(r.start))) {
                Some("hash_range.marker.single_byte_range_at_marker".to_string())
            } else {
                Some("hash_range.digest_mismatch".to_string())
            }
        }
    };
    if let Some(k) = key {
        let c = counts.entry(k.clone()).or_insert(0);
        *c += 1;
        if *c <= 3 {
            println!("VERIF-B-VIOLATION key={k} input=data_len={} ranges={:?} exclusion={exclusion} alg={alg} buf={buf}", data.len(), rs);
        }
    }
}

#[test]
fn c13_range_hash_exact_small_domain() {
    let thorough = std::env::var("VERIF_B_TIER").map(|t| t == "thorough").unwrap_or(false);
    let max_len: usize = if thorough { 7 } else { 5 };
    let vals: Vec<u64> = (0..=(max_len as u64 + 1)).collect();
    let extremes: [u64; 3] = [1 << 32, 1 << 63, u64::MAX];
    let algs: &[&str] = if thorough { &["sha256", "sha384", "sha512"] } else { &["sha256"] };
    let bufs: &[usize] = if thorough { &[1, 2, 3, 1 << 20] } else { &[1, 1 << 20] };
    let mut counts = std::collections::BTreeMap::new();
    let mut evals = 0usize;
    let mut nontrivial = 0usize;
    for len in 0..=max_len {
        let data: Vec<u8> = (0..len as u8).map(|i| i.wrapping_mul(37).wrapping_add(11)).collect();
        // candidate single ranges
        let mut singles: Vec<R> = Vec::new();
        for &s in vals.iter().chain(extremes.iter()) {
            for &l in vals.iter().chain(extremes.iter()) {
                singles.push(R { start: s, len: l, marker: None });
            }
        }
        let markers: Vec<Option<u64>> = std::iter::once(None).chain((0..len as u64).map(Some)).collect();
        for exclusion in [true, false] {
            for (i, a) in singles.iter().enumerate() {
                for b in singles.iter().skip(if thorough { 0 } else { i }).step_by(if thorough { 1 } else { 3 }).chain(std::iter::once(&R { start: 0, len: 0, marker: None })) {
                    for m in &markers {
                        let mut rs = vec![a.clone(), b.clone()];
                        if let Some(mo) = m {
                            if exclusion {
                                rs.push(R { start: *mo, len: 1, marker: Some(*mo) });
                            } else {
                                // inclusion: the marker rides on the first non-empty in-range range
                                if rs[0].len > 0 {
                                    rs[0].marker = Some(*mo);
                                } else {
                                    continue;
                                }
                            }
                        }
                        for alg in algs {
                            for &buf in bufs {
                                evals += 1;
                                if rs.iter().any(|r| r.len > 0 && (r.start as u128 + r.len as u128) <= len as u128) {
                                    nontrivial += 1;
                                }
                                eval_case(&data, &rs, exclusion, alg, buf, &mut counts);
                            }
                        }
                    }
                }
            }
        }
    }
    // inclusion mode: BOTH ranges carry a marker, offsets in any order (also beyond the data: a marker reads nothing)
    for len in 1..=max_len.min(4) {
        let data: Vec<u8> = (0..len as u8).map(|i| i.wrapping_mul(37).wrapping_add(11)).collect();
        let offs: Vec<u64> = (0..=(len as u64 + 2)).chain([48u64, 1 << 33]).collect();
        for s1 in 0..len as u64 {
            for l1 in 1..=(len as u64 - s1) {
                for s2 in 0..len as u64 {
                    for l2 in 1..=(len as u64 - s2) {
                        for &m1 in &offs {
                            for &m2 in &offs {
                                let rs = vec![R { start: s1, len: l1, marker: Some(m1) }, R { start: s2, len: l2, marker: Some(m2) }];
                                evals += 1;
                                nontrivial += 1;
                                eval_case(&data, &rs, false, "sha256", 1 << 20, &mut counts);
                            }
                        }
                    }
                }
            }
        }
    }
    // two markers, exclusion mode (marker/marker and marker/range interaction)
    for len in 2..=max_len {
        let data: Vec<u8> = (0..len as u8).map(|i| i.wrapping_mul(37).wrapping_add(11)).collect();
        for s in 0..len as u64 {
            for l in 0..=(len as u64 - s) {
                for m1 in 0..len as u64 {
                    for m2 in (m1 + 1)..len as u64 {
                        let rs = vec![R { start: s, len: l, marker: None }, R { start: m1, len: 1, marker: Some(m1) }, R { start: m2, len: 1, marker: Some(m2) }];
                        evals += 1;
                        nontrivial += 1;
                        eval_case(&data, &rs, true, "sha256", 1 << 20, &mut counts);
                    }
                }
            }
        }
    }
    println!("VERIF-B-SAMPLE data_len=5 ranges=[(1,2),(4,1)] exclusion -> reference bytes {:?}", reference(&[11, 48, 85, 122, 159], &[R { start: 1, len: 2, marker: None }, R { start: 4, len: 1, marker: None }], true));
    println!("VERIF-B-SAMPLE violation classes this run: {:?}", counts);
    println!("VERIF-B unit=hash_utils test=c13_range_hash_exact_small_domain evaluations={evals} nontrivial={nontrivial} exhaustive=true domain=data length 0..={max_len} x pairs of ranges with start,len in 0..={} plus u64 extremes {{2^32,2^63,2^64-1}} x optional marker at every offset (and all marker pairs) x exclusion/inclusion x algs {:?} x read-buffer sizes {:?}", max_len + 1, algs, bufs);
}

// the read-chunk clause on longer data: every read-buffer size from 1 to the data length + 1 gives the digest of exactly
// the selected bytes (a range then spans up to `len` chunks, with every possible short last chunk)
#[test]
fn c13_chunk_size_independence() {
    let thorough = std::env::var("VERIF_B_TIER").map(|t| t == "thorough").unwrap_or(false);
    let max_len: usize = if thorough { 32 } else { 24 };
    let mut counts = std::collections::BTreeMap::new();
    let mut evals = 0usize;
    let mut nontrivial = 0usize;
    for len in 1..=max_len {
        let data: Vec<u8> = (0..len as u32).map(|i| (i.wrapping_mul(73).wrapping_add(5) % 251) as u8).collect();
        let step = if len <= 12 { 1 } else if thorough { 2 } else { 3 };
        for s in (0..len as u64).step_by(step) {
            for l in (0..=(len as u64 - s)).step_by(step) {
                for buf in (1..=len + 1).chain([1usize << 20]) {
                    // one excluded range (the hashed part is one or two runs of chunks), and the same range as the only
                    // included one
                    for exclusion in [true, false] {
                        let rs = vec![R { start: s, len: l, marker: None }];
                        evals += 1;
                        if l > 0 {
                            nontrivial += 1;
                        }
                        eval_case(&data, &rs, exclusion, "sha256", buf, &mut counts);
                    }
                }
            }
        }
    }
    println!("VERIF-B-SAMPLE violation classes this run: {:?}", counts);
    println!("VERIF-B unit=hash_utils test=c13_chunk_size_independence evaluations={evals} nontrivial={nontrivial} exhaustive=true domain=data length 1..={max_len} x one range (start, len; every one up to length 12, every third - thorough: second - above) x exclusion/inclusion x read-buffer size 1..=length+1 and 2^20");
}
