// unit data_hash: sdk/src/assertions/data_hash.rs (included by the cfg(kani) hook at the end of that file)
// C14: differential check of the CBOR size model that the Verus unit `pad` ASSUMES for to_assertion():
//   |data| = base + hdr(|pad|) + |pad| + (pad2 ? 5 + hdr(|pad2|) + |pad2| : 0),  hdr = 1/2/3/5 at 24, 256, 65536
// and the property's own quantifier for pad_to_size around the header boundaries.
#[allow(unused_imports)]
use super::*;

#[cfg(test)]
fn hdr(n: usize) -> usize {
    if n < 24 { 1 } else if n < 256 { 2 } else if n < 65536 { 3 } else { 5 }
}

#[test]
fn c14_cbor_size_model_matches_serializer() {
    let mut evals = 0usize;
    let mut viol = 0usize;
    let size = |dh: &DataHash| dh.to_assertion().map(|a| a.data().len()).unwrap_or(usize::MAX);
    for exclusions in [0usize, 1, 3] {
        let mut dh = DataHash::new("jumbf manifest", "sha256");
        for i in 0..exclusions {
            dh.add_exclusion(HashRange::new(10 + i as u64 * 100_000, 70_000));
        }
        dh.set_hash(vec![7u8; 32]);
        let base = size(&dh) - hdr(0);
        for pad in [0usize, 1, 22, 23, 24, 25, 254, 255, 256, 257, 65534, 65535, 65536, 65537, 70000] {
            for pad2 in [None, Some(0usize), Some(1), Some(23), Some(24), Some(255), Some(256), Some(65535), Some(65536)] {
                evals += 1;
                dh.pad = vec![0u8; pad];
                dh.pad2 = pad2.map(|n| serde_bytes::ByteBuf::from(vec![0u8; n]));
                let want = base + hdr(pad) + pad + pad2.map_or(0, |n| 5 + hdr(n) + n);
                let got = size(&dh);
                if got != want {
                    viol += 1;
                    if viol <= 3 {
                        println!("VERIF-B-VIOLATION key=cbor_size_model.data_hash input=exclusions={exclusions} pad={pad} pad2={pad2:?}: serializer {got}, model {want}");
                    }
                }
            }
        }
    }
    println!("VERIF-B unit=data_hash test=c14_cbor_size_model_matches_serializer evaluations={evals} nontrivial={evals} exhaustive=true domain=DataHash with 0/1/3 exclusions x pad lengths around 24, 256, 65536 x pad2 None / lengths around the same boundaries; violations={viol}");
}

// pad_to_size on the real serializer: every target up to +300 and the neighbourhood of the 65536 boundary
#[test]
fn c14_pad_to_size_around_header_boundaries() {
    let thorough = std::env::var("VERIF_B_TIER").map(|t| t == "thorough").unwrap_or(false);
    let mut evals = 0usize;
    let mut viol = 0usize;
    let mut targets: Vec<usize> = (0..=300).collect();
    targets.extend(if thorough { (65530..=65545).collect::<Vec<_>>() } else { vec![65537, 65538, 65539] });
    for initial_pad in [0usize, 10] {
        for extra in &targets {
            let mut dh = DataHash::new("jumbf manifest", "sha256");
            dh.set_hash(vec![7u8; 32]);
            dh.pad = vec![0u8; initial_pad];
            let unpadded = dh.to_assertion().map(|a| a.data().len()).unwrap_or(0);
            evals += 1;
            let r = std::panic::catch_unwind(std::panic::AssertUnwindSafe(|| dh.pad_to_size(unpadded + extra)));
            let got = dh.to_assertion().map(|a| a.data().len()).unwrap_or(0);
            let key = match r {
                Err(_) => Some("pad_to_size.panic"),
                Ok(Err(_)) => Some("pad_to_size.size_error_for_ample_target"),
                Ok(Ok(())) if got != unpadded + extra => Some("pad_to_size.wrong_size"),
                _ => None,
            };
            if let Some(k) = key {
                viol += 1;
                if viol <= 3 {
                    println!("VERIF-B-VIOLATION key={k} input=initial pad {initial_pad}, target = unpadded ({unpadded}) + {extra}");
                }
            }
        }
    }
    println!("VERIF-B unit=data_hash test=c14_pad_to_size_around_header_boundaries evaluations={evals} nontrivial={evals} exhaustive=true domain=initial pad {{0,10}} x targets unpadded + 0..=300 and + {}; violations={viol}", if thorough { "65530..=65545" } else { "{65537,65538,65539}" });
}
