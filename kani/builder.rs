// unit builder: sdk/src/builder.rs (included by the cfg(kani) hook at the end of that file)
// C15 native replay / bounded stand-in through the public API: placeholder -> set_data_hash_exclusions ->
// update_hash_from_stream -> sign_embeddable; a successful result has exactly the placeholder length.
#[allow(unused_imports)]
use super::*;

// a well-behaved dynamic assertion (content is exactly `reserve_size` bytes of CBOR) on top of the test signer
#[cfg(test)]
struct NoteAssertion;
#[cfg(test)]
impl crate::dynamic_assertion::DynamicAssertion for NoteAssertion {
    fn label(&self) -> String {
        "org.example.note".to_string()
    }
    fn reserve_size(&self) -> Result<usize> {
        Ok(1024)
    }
    fn content(&self, _label: &str, size: Option<usize>, _claim: &crate::dynamic_assertion::PartialClaim) -> Result<crate::dynamic_assertion::DynamicAssertionContent> {
        let total = size.unwrap_or(1024);
        let text_len = total - 3;
        let mut cbor = vec![0x79, (text_len >> 8) as u8, (text_len & 0xff) as u8];
        cbor.resize(total, b'x');
        Ok(crate::dynamic_assertion::DynamicAssertionContent::Cbor(cbor))
    }
}
#[cfg(test)]
struct DynSigner(crate::signer::BoxedSigner);
#[cfg(test)]
impl crate::Signer for DynSigner {
    fn sign(&self, data: &[u8]) -> Result<Vec<u8>> {
        self.0.sign(data)
    }
    fn alg(&self) -> crate::SigningAlg {
        self.0.alg()
    }
    fn certs(&self) -> Result<Vec<Vec<u8>>> {
        self.0.certs()
    }
    fn reserve_size(&self) -> usize {
        self.0.reserve_size()
    }
    fn dynamic_assertions(&self) -> Vec<Box<dyn crate::dynamic_assertion::DynamicAssertion>> {
        vec![Box::new(NoteAssertion)]
    }
}

#[test]
fn c15_sign_embeddable_size_contract() {
    use crate::utils::test::test_context;
    let thorough = std::env::var("VERIF_B_TIER").map(|t| t == "thorough").unwrap_or(false);
    let mut evals = 0usize;
    let mut nontrivial = 0usize;
    let mut counts: std::collections::BTreeMap<String, usize> = std::collections::BTreeMap::new();
    let formats: &[&str] = if thorough { &["image/jpeg", "application/c2pa", "image/png", "image/tiff"] } else { &["image/jpeg", "application/c2pa"] };
    let defs = [r#"{"title":"t","assertions":[]}"#, r#"{"title":"a longer title for the manifest definition","assertions":[{"label":"org.example.note","data":{"k":"v"}}]}"#];
    for format in formats {
        for def in defs {
          for dynamic in [false, true] {
            for n_ranges in 1..=14u64 {
                for base in [10u64, 70_000, 5_000_000_000] {
                    evals += 1;
                    let run = || -> Result<(usize, Result<Vec<u8>>)> {
                        let ctx = if dynamic {
                            test_context().with_signer(DynSigner(crate::utils::test_signer::test_signer(crate::SigningAlg::Ps256)))
                        } else {
                            test_context()
                        };
                        let mut builder = Builder::from_context(ctx).with_definition(def)?;
                        builder.set_intent(BuilderIntent::Create(DigitalSourceType::Empty));
                        let placeholder = builder.placeholder(format)?;
                        let mut ex = Vec::new();
                        for i in 0..n_ranges {
                            ex.push(HashRange::new(base + i * 1_000, 300));
                        }
                        builder.set_data_hash_exclusions(ex)?;
                        // the asset must contain the excluded ranges; keep it small for the small base only
                        let len = if base > 1_000_000 { 0 } else { (base + n_ranges * 1_000 + 400) as usize };
                        if len == 0 {
                            // ranges beyond any real asset: hashing would fail; set the hash directly instead
                            let mut dh: crate::assertions::DataHash = builder.find_assertion(crate::assertions::DataHash::LABEL)?;
                            dh.set_hash(vec![7u8; 32]);
                            builder.definition.assertions.retain(|a| !a.label.starts_with(crate::assertions::DataHash::LABEL));
                            builder.add_assertion(crate::assertions::DataHash::LABEL, &dh)?;
                        } else {
                            let mut stream = std::io::Cursor::new(vec![7u8; len]);
                            builder.update_hash_from_stream(format, &mut stream)?;
                        }
                        Ok((placeholder.len(), builder.sign_embeddable(format)))
                    };
                    match run() {
                        Err(e) => {
                            // set-up step failed: nothing to check
                            let c = counts.entry("setup_failed".to_string()).or_insert(0);
                            *c += 1;
                            if *c <= 2 {
                                println!("VERIF-B-SAMPLE set-up failed for format={format} ranges={n_ranges} base={base}: {e}");
                            }
                        }
                        Ok((ph, Err(_))) => {
                            let _ = ph;
                            nontrivial += 1; // signing refused: allowed by the statement
                        }
                        Ok((ph, Ok(v))) => {
                            nontrivial += 1;
                            if v.len() != ph {
                                let k = if v.len() > ph { "sign_embeddable.longer_than_placeholder" } else { "sign_embeddable.shorter_than_placeholder" };
                                let c = counts.entry(k.to_string()).or_insert(0);
                                *c += 1;
                                if *c <= 3 {
                                    println!("VERIF-B-VIOLATION key={k} input=format={format} dynamic_assertion={dynamic} ranges={n_ranges} base_offset={base} placeholder={ph} signed={}", v.len());
                                }
                            }
                        }
                    }
                }
            }
          }
        }
    }
    let setup_failed = counts.remove("setup_failed").unwrap_or(0);
    println!("VERIF-B-SAMPLE violation classes this run: {:?}; set-up failures: {setup_failed}", counts);
    println!("VERIF-B unit=builder test=c15_sign_embeddable_size_contract evaluations={evals} nontrivial={nontrivial} exhaustive=true domain=formats {:?} x 2 manifest definitions x signer {{plain, with a dynamic assertion}} x 1..=14 exclusion ranges x base offsets {{10, 70000, 5e9}}", formats);
}

// the same contract over call SEQUENCES on one Builder (the statement quantifies over calls, not over fresh builders):
// rounds of placeholder -> exclusions -> hash -> sign_embeddable with a different number of exclusions per round, an
// assertion added or removed between rounds, and placeholder() called again without signing.  Every sign_embeddable
// result is compared with the placeholder returned LAST.
#[test]
fn c15_placeholder_reuse_sequences() {
    use crate::utils::test::test_context;
    let mut evals = 0usize;
    let mut nontrivial = 0usize;
    let mut counts: std::collections::BTreeMap<String, usize> = std::collections::BTreeMap::new();
    // per round: (number of exclusion ranges, edit before the round: 0 none / 1 add an assertion / 2 remove the added assertions, call placeholder twice)
    let ranges = [1u64, 4, 12];
    let mut rounds_list: Vec<Vec<(u64, u8, bool)>> = Vec::new();
    for &a in &ranges {
        for &b in &ranges {
            for edit in 0..3u8 {
                for twice in [false, true] {
                    rounds_list.push(vec![(a, 0, false), (b, edit, twice)]);
                    rounds_list.push(vec![(a, 1, false), (b, edit, twice), (a, 2, false)]);
                }
            }
        }
    }
    for format in ["image/jpeg", "application/c2pa"] {
        for rounds in &rounds_list {
            evals += 1;
            let mut run = || -> Result<Vec<(usize, Result<Vec<u8>>)>> {
                let mut builder = Builder::from_context(test_context()).with_definition(r#"{"title":"t","assertions":[]}"#)?;
                builder.set_intent(BuilderIntent::Create(DigitalSourceType::Empty));
                let mut out = Vec::new();
                for (k, (n_ranges, edit, twice)) in rounds.iter().enumerate() {
                    match edit {
                        1 => {
                            builder.add_assertion_json(&format!("org.example.note{k}"), &serde_json::json!({"k": "a value that takes some room in the manifest store"}))?;
                        }
                        2 => builder.definition.assertions.retain(|a| !a.label.starts_with("org.example.note")),
                        _ => {}
                    }
                    let mut placeholder = builder.placeholder(format)?;
                    if *twice {
                        placeholder = builder.placeholder(format)?;
                    }
                    let mut ex = Vec::new();
                    for i in 0..*n_ranges {
                        ex.push(HashRange::new(10 + i * 1_000, 300));
                    }
                    builder.set_data_hash_exclusions(ex)?;
                    let mut stream = std::io::Cursor::new(vec![7u8; (10 + n_ranges * 1_000 + 400) as usize]);
                    builder.update_hash_from_stream(format, &mut stream)?;
                    out.push((placeholder.len(), builder.sign_embeddable(format)));
                }
                Ok(out)
            };
            match run() {
                Err(e) => {
                    let c = counts.entry("setup_failed".to_string()).or_insert(0);
                    *c += 1;
                    if *c <= 2 {
                        println!("VERIF-B-SAMPLE set-up failed for format={format} rounds={rounds:?}: {e}");
                    }
                }
                Ok(results) => {
                    nontrivial += 1;
                    for (k, (ph, r)) in results.iter().enumerate() {
                        if let Ok(v) = r {
                            if v.len() != *ph {
                                let key = if v.len() > *ph { "sign_embeddable.longer_than_placeholder" } else { "sign_embeddable.shorter_than_placeholder" };
                                let c = counts.entry(key.to_string()).or_insert(0);
                                *c += 1;
                                if *c <= 3 {
                                    println!("VERIF-B-VIOLATION key={key} input=format={format} rounds(ranges, edit, placeholder twice)={rounds:?} round={k} placeholder={ph} signed={}", v.len());
                                }
                            }
                        }
                    }
                }
            }
        }
    }
    let setup_failed = counts.remove("setup_failed").unwrap_or(0);
    println!("VERIF-B-SAMPLE violation classes this run: {:?}; set-up failures: {setup_failed}", counts);
    println!("VERIF-B unit=builder test=c15_placeholder_reuse_sequences evaluations={evals} nontrivial={nontrivial} exhaustive=true domain=formats {{image/jpeg, application/c2pa}} x sequences of 2-3 placeholder/sign rounds on ONE builder (exclusion counts {{1,4,12}}^2 x assertion added / removed between rounds x placeholder called twice)");
}
