// unit builder: sdk/src/builder.rs (included by the cfg(kani) hook at the end of that file)
// C15 native replay / bounded stand-in through the public API: placeholder -> set_data_hash_exclusions ->
// update_hash_from_stream -> sign_embeddable; a successful result has exactly the placeholder length.
#[allow(unused_imports)]
use super::*;

// a well-behaved dynamic assertion (content is exactly `reserve_size` bytes of CBOR) on top of the test signer
#[cfg(test)]
struct NoteAssertion;
#[cfg(test)]
impl crate::dynamic_assertion::DynamicAssertion for NoteAssertion {
    fn label(&self) -> String {
        "org.example.note".to_string()
    }
    fn reserve_size(&self) -> Result<usize> {
        Ok(1024)
    }
    fn content(&self, _label: &str, size: Option<usize>, _claim: &crate::dynamic_assertion::PartialClaim) -> Result<crate::dynamic_assertion::DynamicAssertionContent> {
        let total = size.unwrap_or(1024);
        let text_len = total - 3;
        let mut cbor = vec![0x79, (text_len >> 8) as u8, (text_len & 0xff) as u8];
        cbor.resize(total, b'x');
        Ok(crate::dynamic_assertion::DynamicAssertionContent::Cbor(cbor))
    }
}
#[cfg(test)]
struct DynSigner(crate::signer::BoxedSigner);
#[cfg(test)]
impl crate::Signer for DynSigner {
    fn sign(&self, data: &[u8]) -> Result<Vec<u8>> {
        self.0.sign(data)
    }
    fn alg(&self) -> crate::SigningAlg {
        self.0.alg()
    }
    fn certs(&self) -> Result<Vec<Vec<u8>>> {
        self.0.certs()
    }
    fn reserve_size(&self) -> usize {
        self.0.reserve_size()
    }
    fn dynamic_assertions(&self) -> Vec<Box<dyn crate::dynamic_assertion::DynamicAssertion>> {
        vec![Box::new(NoteAssertion)]
    }
}

#[test]
fn c15_sign_embeddable_size_contract() {
    use crate::utils::test::test_context;
    let thorough = std::env::var("VERIF_B_TIER").map(|t| t == "thorough").unwrap_or(false);
    let mut evals = 0usize;
    let mut nontrivial = 0usize;
    let mut counts: std::collections::BTreeMap<String, usize> = std::collections::BTreeMap::new();
    let formats: &[&str] = if thorough { &["image/jpeg", "application/c2pa", "image/png", "image/tiff"] } else { &["image/jpeg", "application/c2pa"] };
    let defs = [r#"{"title":"t","assertions":[]}"#, r#"{"title":"a longer title for the manifest definition","assertions":[{"label":"org.example.note","data":{"k":"v"}}]}"#];
    for format in formats {
        for def in defs {
          for dynamic in [false, true] {
            for n_ranges in 1..=14u64 {
                for base in [10u64, 70_000, 5_000_000_000] {
                    evals += 1;
                    let run = || -> Result<(usize, Result<Vec<u8>>)> {
                        let ctx = if dynamic {
                            test_context().with_signer(DynSigner(crate::utils::test_signer::test_signer(crate::SigningAlg::Ps256)))
                        } else {
                            test_context()
                        };
                        let mut builder = Builder::from_context(ctx).with_definition(def)?;
                        builder.set_intent(BuilderIntent::Create(DigitalSourceType::Empty));
                        let placeholder = builder.placeholder(format)?;
                        let mut ex = Vec::new();
                        for i in 0..n_ranges {
                            ex.push(HashRange::new(base + i * 1_000, 300));
                        }
                        builder.set_data_hash_exclusions(ex)?;
                        // the asset must contain the excluded ranges; keep it small for the small base only
                        let len = if base > 1_000_000 { 0 } else { (base + n_ranges * 1_000 + 400) as usize };
                        if len == 0 {
                            // ranges beyond any real asset: hashing would fail; set the hash directly instead
                            let mut dh: crate::assertions::DataHash = builder.find_assertion(crate::assertions::DataHash::LABEL)?;
                            dh.set_hash(vec![7u8; 32]);
                            builder.definition.assertions.retain(|a| !a.label.starts_with(crate::assertions::DataHash::LABEL));
                            builder.add_assertion(crate::assertions::DataHash::LABEL, &dh)?;
                        } else {
                            let mut stream = std::io::Cursor::new(vec![7u8; len]);
                            builder.update_hash_from_stream(format, &mut stream)?;
                        }
                        Ok((placeholder.len(), builder.sign_embeddable(format)))
                    };
                    match run() {
                        Err(e) => {
                            // set-up step failed: nothing to check
                            let c = counts.entry("setup_failed".to_string()).or_insert(0);
                            *c += 1;
                            if *c <= 2 {
                                println!("VERIF-B-SAMPLE set-up failed for format={format} ranges={n_ranges} base={base}: {e}");
                            }
                        }
                        Ok((ph, Err(_))) => {
                            let _ = ph;
                            nontrivial += 1; // signing refused: allowed by the statement
                        }
                        Ok((ph, Ok(v))) => {
                            nontrivial += 1;
                            if v.len() != ph {
                                let k = if v.len() > ph { "sign_embeddable.longer_than_placeholder" } else { "sign_embeddable.shorter_than_placeholder" };
                                let c = counts.entry(k.to_string()).or_insert(0);
                                *c += 1;
                                if *c <= 3 {
                                    println!("VERIF-B-VIOLATION key={k} input=format={format} dynamic_assertion={dynamic} ranges={n_ranges} base_offset={base} placeholder={ph} signed={}", v.len());
                                }
                            }
                        }
                    }
                }
            }
          }
        }
    }
    let setup_failed = counts.remove("setup_failed").unwrap_or(0);
    println!("VERIF-B-SAMPLE violation classes this run: {:?}; set-up failures: {setup_failed}", counts);
    println!("VERIF-B unit=builder test=c15_sign_embeddable_size_contract evaluations={evals} nontrivial={nontrivial} exhaustive=true domain=formats {:?} x 2 manifest definitions x signer {{plain, with a dynamic assertion}} x 1..=14 exclusion ranges x base offsets {{10, 70000, 5e9}}", formats);
}
