// unit ffi_utils: harnesses for c2pa_c_ffi/src/cimpl/utils.rs (included by the cfg(kani) hook at the end of that file)
#[allow(unused_imports)]
use super::*;
