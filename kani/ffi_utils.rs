// unit ffi_utils: c2pa_c_ffi/src/cimpl/utils.rs (included by the cfg(kani) hook at the end of that file)
// C31 (handle registry only, Engine B): PointerRegistry::{track, validate, untrack, free} against the model
//   view: Map<address, (type, cleanup id)>, runs: cleanup id -> number of times it ran
//   validate  read-only; Ok <=> ptr != 0 and view[ptr].type == t
//   untrack   Ok <=> ptr != 0 and view[ptr].type == t; removes exactly ptr; never runs a cleanup; Err changes nothing
//   free(0)   Ok, nothing changes;  free(p) tracked: Ok, runs p's cleanup exactly once, removes exactly p;
//             free(p) untracked (never tracked, already freed, untracked): Err, nothing changes, nothing runs
//   track(0)  ignored; track(p, t, c): view[p] = (t, c) (an older entry is replaced and its cleanup never runs)
#[allow(unused_imports)]
use super::*;

#[cfg(test)]
mod c31 {
    use super::*;
    use std::sync::atomic::{AtomicUsize, Ordering};
    use std::sync::Arc;

    struct T1;
    struct T2;

    #[derive(Clone, Copy, Debug, PartialEq)]
    enum Op {
        Track(usize, u8),
        Validate(usize, u8),
        Untrack(usize, u8),
        Free(usize),
    }

    fn tid(t: u8) -> TypeId {
        if t == 0 { TypeId::of::<T1>() } else { TypeId::of::<T2>() }
    }

    fn all_ops() -> Vec<Op> {
        let mut v = Vec::new();
        for a in 0..=3usize {
            // address 0 is NULL; 1..=3 stand for three distinct non-null addresses
            let p = a * 0x1000;
            for t in 0..2u8 {
                v.push(Op::Track(p, t));
                v.push(Op::Validate(p, t));
                v.push(Op::Untrack(p, t));
            }
            v.push(Op::Free(p));
        }
        v
    }

    // runs one sequence on a fresh real registry next to the model; returns the first violated clause
    fn run_seq(seq: &[Op]) -> Option<&'static str> {
        let reg = PointerRegistry::new();
        let mut model: std::collections::BTreeMap<usize, (u8, usize)> = std::collections::BTreeMap::new();
        let mut counters: Vec<Arc<AtomicUsize>> = Vec::new();
        let mut expected_runs: Vec<usize> = Vec::new();
        for op in seq {
            match *op {
                Op::Track(p, t) => {
                    let c = Arc::new(AtomicUsize::new(0));
                    let c2 = Arc::clone(&c);
                    counters.push(c);
                    expected_runs.push(0);
                    let id = counters.len() - 1;
                    reg.track(p, tid(t), Box::new(move || {
                        c2.fetch_add(1, Ordering::SeqCst);
                    }));
                    if p != 0 {
                        model.insert(p, (t, id));
                    }
                }
                Op::Validate(p, t) => {
                    let want = p != 0 && model.get(&p).map(|e| e.0) == Some(t);
                    if reg.validate(p, tid(t)).is_ok() != want {
                        return Some("validate_result");
                    }
                }
                Op::Untrack(p, t) => {
                    let want = p != 0 && model.get(&p).map(|e| e.0) == Some(t);
                    if reg.untrack(p, tid(t)).is_ok() != want {
                        return Some("untrack_result");
                    }
                    if want {
                        model.remove(&p);
                    }
                }
                Op::Free(p) => {
                    let want = p == 0 || model.contains_key(&p);
                    if reg.free(p).is_ok() != want {
                        return Some(if want { "free_of_live_handle_fails" } else { "free_of_dead_handle_succeeds" });
                    }
                    if let Some((_, id)) = model.remove(&p) {
                        expected_runs[id] += 1;
                    }
                }
            }
            // frame + exactly-once: the whole view and every cleanup counter agree with the model after every step
            for a in 1..=3usize {
                let p = a * 0x1000;
                for t in 0..2u8 {
                    let want = model.get(&p).map(|e| e.0) == Some(t);
                    if reg.validate(p, tid(t)).is_ok() != want {
                        return Some("view_differs_from_model");
                    }
                }
            }
            for (id, c) in counters.iter().enumerate() {
                let r = c.load(Ordering::SeqCst);
                if r != expected_runs[id] {
                    return Some(if r > expected_runs[id] { "cleanup_ran_too_often" } else { "cleanup_not_run" });
                }
            }
        }
        // empty the registry so that Drop does not print its leak warning for every sequence
        for a in 1..=3usize {
            let _ = reg.untrack(a * 0x1000, tid(0));
            let _ = reg.untrack(a * 0x1000, tid(1));
        }
        None
    }

    #[test]
    fn c31_registry_matches_model_all_short_sequences() {
        let thorough = std::env::var("VERIF_B_TIER").map(|t| t == "thorough").unwrap_or(false);
        let ops = all_ops();
        let max_len = if thorough { 5 } else { 4 };
        let mut evals = 0usize;
        let mut nontrivial = 0usize;
        let mut counts: std::collections::BTreeMap<String, usize> = std::collections::BTreeMap::new();
        let mut idx = vec![0usize; max_len];
        for len in 1..=max_len {
            for i in idx.iter_mut() {
                *i = 0;
            }
            loop {
                let seq: Vec<Op> = idx[..len].iter().map(|i| ops[*i]).collect();
                evals += 1;
                if seq.iter().any(|o| matches!(o, Op::Free(p) if *p != 0)) && seq.iter().any(|o| matches!(o, Op::Track(p, _) if *p != 0)) {
                    nontrivial += 1;
                }
                let r = std::panic::catch_unwind(|| run_seq(&seq));
                let key = match r {
                    Err(_) => Some("registry.panic"),
                    Ok(Some(k)) => Some(k),
                    Ok(None) => None,
                };
                if let Some(k) = key {
                    let c = counts.entry(format!("registry.{k}")).or_insert(0);
                    *c += 1;
                    if *c <= 3 {
                        println!("VERIF-B-VIOLATION key=registry.{k} input={seq:?}");
                    }
                }
                // next sequence
                let mut j = len;
                let mut done = false;
                loop {
                    if j == 0 {
                        done = true;
                        break;
                    }
                    j -= 1;
                    idx[j] += 1;
                    if idx[j] < ops.len() {
                        break;
                    }
                    idx[j] = 0;
                }
                if done {
                    break;
                }
            }
        }
        println!("VERIF-B-SAMPLE [Track(0x1000,T1), Free(0x1000), Free(0x1000)] -> second free is Err, cleanup ran once");
        println!("VERIF-B-SAMPLE violation classes this run: {:?}", counts);
        println!("VERIF-B unit=ffi_utils test=c31_registry_matches_model_all_short_sequences evaluations={evals} nontrivial={nontrivial} exhaustive=true domain=every sequence of 1..={max_len} operations over {{track,validate,untrack}} x 4 addresses (NULL + 3) x 2 types and free x 4 addresses, from the empty registry");
    }
}


// ---------------------------------------------------------------- C31 at the exported C API (Engine B)
// Handle lifecycle through the real extern "C" functions: every handle a constructor returns is tracked; after its
// release function returned, neither the handle nor any sub-handle (the strings of a string array) is tracked any more,
// a further c2pa_free of it reports an error (-1 with a retrievable message) instead of freeing again, and
// c2pa_free(NULL) is 0.
#[cfg(test)]
mod c31_api {
    use super::*;
    #[allow(deprecated)]
    use crate::c_api::*;
    use std::os::raw::{c_char, c_void};

    fn tracked(p: usize) -> bool {
        get_registry().tracked.lock().map(|t| t.contains_key(&p)).unwrap_or(false)
    }

    #[test]
    #[allow(deprecated)]
    fn c31_released_handles_are_untracked_and_second_free_is_an_error() {
        let mut evals = 0usize;
        let mut nontrivial = 0usize;
        let mut counts: std::collections::BTreeMap<String, usize> = std::collections::BTreeMap::new();
        let mut bad = |k: &str, input: String, counts: &mut std::collections::BTreeMap<String, usize>| {
            let c = counts.entry(k.to_string()).or_insert(0);
            *c += 1;
            if *c <= 3 {
                println!("VERIF-B-VIOLATION key={k} input={input}");
            }
        };
        unsafe {
            assert_eq!(c2pa_free(std::ptr::null()), 0);
            // (constructor name, handle, sub-handles, release)
            type Release = Box<dyn Fn(usize, usize)>;
            let mut cases: Vec<(&str, usize, Vec<usize>, usize, &str, Release)> = Vec::new();
            let free_generic: fn() -> Release = || Box::new(|p, _| { c2pa_free(p as *const c_void); });
            let v = c2pa_version();
            cases.push(("c2pa_version", v as usize, vec![], 0, "c2pa_free", free_generic()));
            let v2 = c2pa_version();
            cases.push(("c2pa_version", v2 as usize, vec![], 0, "c2pa_string_free", Box::new(|p, _| c2pa_string_free(p as *mut c_char))));
            let v3 = c2pa_version();
            cases.push(("c2pa_version", v3 as usize, vec![], 0, "c2pa_release_string", Box::new(|p, _| c2pa_release_string(p as *mut c_char))));
            let s = c2pa_settings_new();
            cases.push(("c2pa_settings_new", s as usize, vec![], 0, "c2pa_free", free_generic()));
            let cb = c2pa_context_builder_new();
            cases.push(("c2pa_context_builder_new", cb as usize, vec![], 0, "c2pa_free", free_generic()));
            let cx = c2pa_context_new();
            cases.push(("c2pa_context_new", cx as usize, vec![], 0, "c2pa_free", free_generic()));
            let r = c2pa_reader_new();
            cases.push(("c2pa_reader_new", r as usize, vec![], 0, "c2pa_reader_free", Box::new(|p, _| c2pa_reader_free(p as *mut _))));
            let r2 = c2pa_reader_new();
            cases.push(("c2pa_reader_new", r2 as usize, vec![], 0, "c2pa_free", free_generic()));
            let js = std::ffi::CString::new("{}").unwrap();
            let b = c2pa_builder_from_json(js.as_ptr());
            cases.push(("c2pa_builder_from_json", b as usize, vec![], 0, "c2pa_builder_free", Box::new(|p, _| c2pa_builder_free(p as *mut _))));
            for which in 0..2 {
                let mut count: usize = 0;
                let arr = if which == 0 { c2pa_reader_supported_mime_types(&mut count) } else { c2pa_builder_supported_mime_types(&mut count) };
                let elems: Vec<usize> = (0..count).map(|i| *arr.add(i) as usize).collect();
                cases.push((if which == 0 { "c2pa_reader_supported_mime_types" } else { "c2pa_builder_supported_mime_types" }, arr as usize, elems, count, "c2pa_free_string_array",
                            Box::new(|p, n| c2pa_free_string_array(p as *const *const c_char, n))));
            }
            for (ctor, handle, subs, n, rel_name, release) in cases {
                if handle == 0 {
                    continue;
                }
                evals += 1;
                nontrivial += 1;
                let is_array = rel_name == "c2pa_free_string_array";
                // before release: the handle (or, for an array, every element) is tracked
                let live: Vec<usize> = if is_array { subs.clone() } else { vec![handle] };
                if live.iter().any(|p| !tracked(*p)) {
                    bad("c_api.live_handle_not_tracked", format!("{ctor}"), &mut counts);
                }
                release(handle, n);
                let still = live.iter().filter(|p| tracked(**p)).count();
                if still > 0 {
                    bad("c_api.released_handle_still_tracked", format!("{ctor} released with {rel_name}: {still} of {} handles are still registered", live.len()), &mut counts);
                    // make the registry consistent again WITHOUT running the cleanup (the memory is gone)
                    if let Ok(mut t) = get_registry().tracked.lock() {
                        for p in &live {
                            if let Some(e) = t.remove(p) {
                                std::mem::forget(e);
                            }
                        }
                    }
                    continue;
                }
                // a second free of a released handle is an error with a retrievable message, not a second free
                for p in live.iter().take(3) {
                    evals += 1;
                    let rc = c2pa_free(*p as *const c_void);
                    let msg = c2pa_error();
                    let text = if msg.is_null() { String::new() } else { std::ffi::CStr::from_ptr(msg).to_string_lossy().to_string() };
                    if !msg.is_null() {
                        c2pa_free(msg as *const c_void);
                    }
                    if rc != -1 || text.is_empty() {
                        bad("c_api.second_free_not_reported", format!("{ctor}: second free returned {rc}, message {text:?}"), &mut counts);
                    }
                }
            }
        }
        println!("VERIF-B-SAMPLE c2pa_reader_supported_mime_types -> c2pa_free_string_array -> c2pa_free(element) must be -1 / UntrackedPointer");
        println!("VERIF-B-SAMPLE violation classes this run: {:?}", counts);
        println!("VERIF-B unit=ffi_utils test=c31_released_handles_are_untracked_and_second_free_is_an_error evaluations={evals} nontrivial={nontrivial} exhaustive=true domain=12 constructor / release pairs of the exported C API (strings x 3 release functions, settings, context builder, context, reader x 2, builder, both mime-type arrays with all their elements), each followed by a second free");
    }

    // ---- handle-consuming calls with aliased handles.  A call that takes ownership of two handles is given the SAME live
    // handle twice (and a live one with an already released one): it must refuse or succeed, and the registry must keep
    // giving one consistent answer about every handle involved - never a second release of the same allocation.  A double
    // free aborts the process, so the calls run in a child process (this test binary re-executed on the ignored test
    // below); the parent reports an abnormal exit as the violation.
    fn make_signer() -> *mut C2paSigner {
        let dir = concat!(env!("CARGO_MANIFEST_DIR"), "/../sdk/tests/fixtures/certs/");
        let certs = std::fs::read_to_string(format!("{dir}ed25519.pub")).unwrap_or_default();
        let key = std::fs::read_to_string(format!("{dir}ed25519.pem")).unwrap_or_default();
        let alg = std::ffi::CString::new("Ed25519").unwrap();
        let sign_cert = std::ffi::CString::new(certs).unwrap();
        let private_key = std::ffi::CString::new(key).unwrap();
        let info = C2paSignerInfo { alg: alg.as_ptr(), sign_cert: sign_cert.as_ptr(), private_key: private_key.as_ptr(), ta_url: std::ptr::null() };
        unsafe { c2pa_signer_from_info(&info) }
    }

    #[test]
    #[ignore]
    #[allow(deprecated)]
    fn c31_child_aliased_signer_handles() {
        let refs: [*const c_char; 1] = [std::ptr::null()];
        let roles: [*const c_char; 1] = [std::ptr::null()];
        let mut done = 0usize;
        // case 0: (s, s); case 1: (s, released t); case 2: (released t, s)
        for case in 0..3 {
            let s = make_signer();
            let t = make_signer();
            if s.is_null() || t.is_null() {
                println!("CHILD-SETUP-FAILED");
                return;
            }
            unsafe {
                let (a, b) = match case {
                    0 => (s, s),
                    1 => { c2pa_free(t as *const c_void); (s, t) }
                    _ => { c2pa_free(t as *const c_void); (t, s) }
                };
                let combined = c2pa_identity_signer_create(a, b, refs.as_ptr(), roles.as_ptr());
                if !combined.is_null() {
                    println!("VERIF-B-VIOLATION key=c_api.aliased_handles_accepted input=c2pa_identity_signer_create case {case} (0: same handle twice, 1/2: one handle already released) returned a signer");
                    c2pa_free(combined as *const c_void);
                }
                // one consistent answer about s: usable and freeable exactly once, or consumed and not freeable at all
                let usable = c2pa_signer_reserve_size(s) >= 0;
                let first = c2pa_free(s as *const c_void);
                if (first == 0) != usable {
                    println!("VERIF-B-VIOLATION key=c_api.handle_state_inconsistent input=c2pa_identity_signer_create case {case}: handle usable={usable} but c2pa_free returned {first}");
                }
                if c2pa_free(s as *const c_void) != -1 {
                    println!("VERIF-B-VIOLATION key=c_api.handle_released_twice input=c2pa_identity_signer_create case {case}: second c2pa_free of the signer did not fail");
                }
                if case == 0 {
                    c2pa_free(t as *const c_void);
                }
            }
            done += 1;
        }
        // the library keeps working
        let other = make_signer();
        unsafe {
            if other.is_null() || c2pa_signer_reserve_size(other) <= 0 || c2pa_free(other as *const c_void) != 0 {
                println!("VERIF-B-VIOLATION key=c_api.library_unusable_after_refused_call input=signer creation / release after the aliased calls");
            }
        }
        println!("CHILD-DONE cases={done}");
    }

    #[test]
    fn c31_consuming_calls_with_aliased_handles() {
        let name = concat!(module_path!(), "::c31_child_aliased_signer_handles");
        let name = name.split_once("::").map(|(_, rest)| rest.to_string()).unwrap_or_default();
        let out = std::env::current_exe().and_then(|exe| std::process::Command::new(exe).args(["--exact", &name, "--ignored", "--nocapture", "--test-threads", "1"]).output());
        let mut viol = 0usize;
        match out {
            Err(e) => {
                println!("VERIF-B-SAMPLE could not start the child process: {e}");
                println!("VERIF-B unit=ffi_utils test=c31_consuming_calls_with_aliased_handles evaluations=0 nontrivial=0 exhaustive=false domain=child process not started");
                return;
            }
            Ok(o) => {
                let text = String::from_utf8_lossy(&o.stdout).to_string();
                for l in text.lines().filter(|l| l.starts_with("VERIF-B-VIOLATION")) {
                    println!("{l}");
                    viol += 1;
                }
                let finished = text.contains("CHILD-DONE cases=3");
                if text.contains("CHILD-SETUP-FAILED") {
                    println!("VERIF-B-SAMPLE child could not create the test signers");
                } else if !o.status.success() || !finished {
                    viol += 1;
                    let err = String::from_utf8_lossy(&o.stderr);
                    let hint = err.lines().rev().find(|l| l.contains("free") || l.contains("SIG") || l.contains("panicked")).unwrap_or("").chars().take(120).collect::<String>();
                    println!("VERIF-B-VIOLATION key=c_api.aliased_handles_crash input=c2pa_identity_signer_create with the same live signer handle twice / with a released handle: the process ended abnormally ({:?}) {hint}", o.status);
                }
            }
        }
        println!("VERIF-B-SAMPLE child process ran c2pa_identity_signer_create(s, s), (s, released), (released, s)");
        println!("VERIF-B unit=ffi_utils test=c31_consuming_calls_with_aliased_handles evaluations=3 nontrivial=3 exhaustive=true domain=c2pa_identity_signer_create with the same live handle in both positions and with one already released handle in either position, in a child process; violations={viol}");
    }
}
