// unit bmff_hash: harnesses for sdk/src/assertions/bmff_hash.rs (included by the cfg(kani) hook at the end of that file)
#[allow(unused_imports)]
use super::*;
