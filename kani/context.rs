// unit context: sdk/src/context.rs (included by the cfg(kani) hook at the end of that file)
// C23: Context::check_progress is the cancellation checkpoint:
//   Ok <=> (no callback or the callback returned true) and the cancel flag is not set; Err is OperationCancelled;
//   the callback is invoked exactly once when present - for every step and total (loop-free: complete)
#[allow(unused_imports)]
use super::*;

    use std::panic as sp;
    fn stub_catch<F: FnOnce() -> R + std::panic::UnwindSafe, R>(f: F) -> std::thread::Result<R> { Ok(f()) }
    fn stub_settings_default() -> Settings { kani::assume(false); unreachable!() }

    static mut CB_RET: bool = true;
    static mut CB_CALLS: u32 = 0;

    #[kani::proof]
    #[kani::stub(sp::catch_unwind, stub_catch)]
    #[kani::unwind(3)]
    fn c23_checkpoint_contract() {
        let has_cb: bool = kani::any();
        let cb_ret: bool = kani::any();
        let cancelled: bool = kani::any();
        unsafe { CB_RET = cb_ret; CB_CALLS = 0; }
        let mut ctx = Context::default();
        if has_cb {
            ctx.progress_callback = Some(Box::new(|_p, s, t| { unsafe { CB_CALLS += 1; CB_RET } }));
        }
        if cancelled { ctx.cancel(); }
        let step: u32 = kani::any();
        let total: u32 = kani::any();
        let r = ctx.check_progress(ProgressPhase::Hashing, step, total);
        let expect_ok = (!has_cb || cb_ret) && !cancelled;
        assert!(r.is_ok() == expect_ok);
        if let Err(e) = &r { assert!(matches!(e, Error::OperationCancelled)); }
        unsafe { assert!(CB_CALLS == if has_cb { 1 } else { 0 }); }
        std::mem::forget(r); std::mem::forget(ctx);
    }
