// unit context: sdk/src/context.rs (included by the cfg(kani) hook at the end of that file)
// C23: Context::check_progress is the cancellation checkpoint:
//   Ok <=> (no callback or the callback returned true) and the cancel flag is not set; Err is OperationCancelled;
//   the callback is invoked exactly once when present - for every step and total (loop-free: complete)
#[allow(unused_imports)]
use super::*;

    use std::panic as sp;
    fn stub_catch<F: FnOnce() -> R + std::panic::UnwindSafe, R>(f: F) -> std::thread::Result<R> { Ok(f()) }
    fn stub_settings_default() -> Settings { kani::assume(false); unreachable!() }

    static mut CB_RET: bool = true;
    static mut CB_CALLS: u32 = 0;

    #[kani::proof]
    #[kani::stub(sp::catch_unwind, stub_catch)]
    #[kani::unwind(3)]
    fn c23_checkpoint_contract() {
        let has_cb: bool = kani::any();
        let cb_ret: bool = kani::any();
        let cancelled: bool = kani::any();
        unsafe { CB_RET = cb_ret; CB_CALLS = 0; }
        let mut ctx = Context::default();
        if has_cb {
            ctx.progress_callback = Some(Box::new(|_p, s, t| { unsafe { CB_CALLS += 1; CB_RET } }));
        }
        if cancelled { ctx.cancel(); }
        let step: u32 = kani::any();
        let total: u32 = kani::any();
        let r = ctx.check_progress(ProgressPhase::Hashing, step, total);
        let expect_ok = (!has_cb || cb_ret) && !cancelled;
        assert!(r.is_ok() == expect_ok);
        if let Err(e) = &r { assert!(matches!(e, Error::OperationCancelled)); }
        unsafe { assert!(CB_CALLS == if has_cb { 1 } else { 0 }); }
        std::mem::forget(r); std::mem::forget(ctx);
    }

// ---------------------------------------------------------------- C26 (resolver stacking, Engine B)
// The default resolver a Context builds from its settings refuses every request whose URI matches no configured
// pattern, before anything reaches the transport (so this runs offline): for every allow-list of the domain and every
// URI that matches none of its patterns the result is UriDisallowed.
#[test]
fn c26_default_resolver_enforces_the_configured_allow_list() {
    use http::Request;
    let lists: [&[&str]; 5] = [&["a.ok"], &["*.a.ok"], &["https://a.ok"], &["a.ok:8080"], &["a.ok", "*.b.ok", "http://c.ok:81"]];
    let uris = [
        "http://evil.no/", "https://evil.no/x", "http://a.ok.evil.no/", "http://xa.ok/", "http://a.ok:81/", "http://a.ok/", "https://a.ok/", "http://s.a.ok/", "http://a.ok:8080/",
        "http://b.ok/", "http://s.b.ok/", "http://c.ok:81/", "https://c.ok:81/", "http://127.0.0.1/", "http://169.254.169.254/latest", "http://[::1]/", "http://localhost/",
    ];
    let mut evals = 0usize;
    let mut nontrivial = 0usize;
    let mut viol = 0usize;
    for list in lists {
        let pats: Vec<crate::http::restricted::HostPattern> = list.iter().map(|p| crate::http::restricted::HostPattern::new(p)).collect();
        let json = serde_json::json!({"core": {"allowed_network_hosts": list}}).to_string();
        let Ok(ctx) = Context::new().with_settings(json.as_str()) else {
            println!("VERIF-B-SAMPLE settings rejected: {json}");
            continue;
        };
        for u in uris {
            let uri: http::Uri = u.parse().unwrap();
            if pats.iter().any(|p| p.matches(&uri)) {
                continue; // an allowed request would go to the network: outside this offline check
            }
            evals += 1;
            nontrivial += 1;
            let r = ctx.resolver().http_resolve(Request::get(u).body(Vec::new()).unwrap());
            if !matches!(r, Err(crate::http::HttpResolverError::UriDisallowed { .. })) {
                viol += 1;
                println!("VERIF-B-VIOLATION key=resolver_stack.disallowed_request_not_refused input=allowed_network_hosts={list:?} uri={u} -> {}", if r.is_ok() { "Ok".to_string() } else { format!("{:?}", r.err()) });
            }
        }
    }
    println!("VERIF-B-SAMPLE allowed_network_hosts=[\"a.ok\"] uri=http://evil.no/ -> UriDisallowed before the transport");
    println!("VERIF-B unit=context test=c26_default_resolver_enforces_the_configured_allow_list evaluations={evals} nontrivial={nontrivial} exhaustive=true domain=5 allow-lists x 17 URIs (those that match no pattern of the list), through Context::resolver() built from settings; violations={viol}");
}
