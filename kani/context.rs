// unit context: harnesses for sdk/src/context.rs (included by the cfg(kani) hook at the end of that file)
#[allow(unused_imports)]
use super::*;
