// unit reader: sdk/src/reader.rs (included by the cfg(kani) hook at the end of that file)
// C23 (propagation at the public API, Engine B): for every callback invocation index k of a read / sign run, returning
// false at the k-th invocation ends the operation with Error::OperationCancelled - never Ok, never another error.
// Also the step discipline: step >= 1, step <= total when total != 0, strictly increasing within a run of one phase.
#[allow(unused_imports)]
use super::*;

#[cfg(test)]
fn c23_sweep<F>(label: &str, run: F, counts: &mut std::collections::BTreeMap<String, usize>) -> (usize, usize)
where
    F: Fn(Context) -> std::result::Result<String, Error>,
{
    use std::sync::{
        atomic::{AtomicUsize, Ordering},
        Arc, Mutex,
    };
    // a full run: count callbacks and check the step discipline
    let seen: Arc<Mutex<Vec<(String, u32, u32)>>> = Arc::new(Mutex::new(Vec::new()));
    let s2 = Arc::clone(&seen);
    let ctx = crate::utils::test::test_context().with_progress_callback(move |p, s, t| {
        s2.lock().unwrap().push((format!("{p:?}"), s, t));
        true
    });
    let full = run(ctx);
    let calls = seen.lock().unwrap().clone();
    let total = calls.len();
    let mut bad = |k: String, input: String, counts: &mut std::collections::BTreeMap<String, usize>| {
        let c = counts.entry(k.clone()).or_insert(0);
        *c += 1;
        if *c <= 3 {
            println!("VERIF-B-VIOLATION key={k} input={input}");
        }
    };
    if full.is_err() {
        println!("VERIF-B-SAMPLE {label}: uncancelled run failed: {:?}", full.err());
        return (0, 0);
    }
    let mut prev: Option<(String, u32)> = None;
    for (i, (p, s, t)) in calls.iter().enumerate() {
        if *s < 1 || (*t != 0 && s > t) {
            bad("progress.step_out_of_range".to_string(), format!("{label}: callback {i} phase {p} step {s} total {t}"), counts);
        }
        if let Some((pp, ps)) = &prev {
            if pp == p && *s <= *ps && *s != 1 {
                bad("progress.step_not_increasing".to_string(), format!("{label}: callback {i} phase {p} step {s} after step {ps}"), counts);
            }
        }
        prev = Some((p.clone(), *s));
    }
    let mut evals = 1usize;
    for k in 0..total {
        evals += 1;
        let c = Arc::new(AtomicUsize::new(0));
        let c2 = Arc::clone(&c);
        let ctx = crate::utils::test::test_context().with_progress_callback(move |_p, _s, _t| c2.fetch_add(1, Ordering::SeqCst) != k);
        match run(ctx) {
            Err(Error::OperationCancelled) => {}
            Err(e) => bad("cancel.reported_as_other_error".to_string(), format!("{label}: cancel at callback {k} ({:?}) -> Err({e})", calls[k]), counts),
            Ok(desc) => bad(format!("cancel.swallowed.{}", calls[k].0), format!("{label}: cancel at callback {k} ({:?}) -> Ok: {desc}", calls[k]), counts),
        }
    }
    println!("VERIF-B-SAMPLE {label}: {total} callbacks in a full run ({}), phases {:?}", full.as_deref().unwrap_or("?"), calls.iter().map(|c| c.0.clone()).collect::<std::collections::BTreeSet<_>>());
    (evals, total)
}

#[test]
fn c23_cancel_at_every_callback() {
    let mut counts = std::collections::BTreeMap::new();
    let mut evals = 0usize;
    let mut nontrivial = 0usize;
    // reads of signed fixtures: data hash (JPEG), BMFF hash (MP4), box hash is produced below
    for (file, mime) in [("CA.jpg", "image/jpeg"), ("C.jpg", "image/jpeg"), ("video1.mp4", "video/mp4"), ("sample1.gif", "image/gif"), ("exp-test1.png", "image/png")] {
        let Ok(bytes) = std::fs::read(crate::utils::test::fixture_path(file)) else { continue };
        let (e, n) = c23_sweep(
            &format!("read {file}"),
            |ctx| {
                let r = Reader::from_context(ctx).with_stream(mime, std::io::Cursor::new(bytes.clone()))?;
                Ok(format!("state {:?}", r.validation_state()))
            },
            &mut counts,
        );
        evals += e;
        nontrivial += n;
    }
    // a box-hash bound asset: sign with prefer_box_hash, then read it back with a cancel at every callback
    if let Ok(bytes) = std::fs::read(crate::utils::test::fixture_path("IMG_0003.jpg")) {
        let signed: std::result::Result<Vec<u8>, Error> = (|| {
            let ctx = crate::utils::test::test_context().with_settings(r#"{"core": {"prefer_compress_manifests": true}}"#)?.into_shared();
            let mut b = crate::Builder::from_shared_context(&ctx).with_definition(r#"{"title":"t","assertions":[]}"#)?;
            b.set_intent(crate::BuilderIntent::Create(crate::DigitalSourceType::Empty));
            let mut src = std::io::Cursor::new(bytes.clone());
            let mut dst = std::io::Cursor::new(Vec::new());
            b.save_to_stream("image/jpeg", &mut src, &mut dst)?;
            Ok(dst.into_inner())
        })();
        match signed {
            Ok(asset) => {
                let (e, n) = c23_sweep(
                    "read box-hash signed IMG_0003.jpg",
                    |ctx| {
                        let r = Reader::from_context(ctx).with_stream("image/jpeg", std::io::Cursor::new(asset.clone()))?;
                        let bound_by_boxes = r.json().contains("c2pa.hash.boxes");
                        Ok(format!("state {:?} box_hash={bound_by_boxes}", r.validation_state()))
                    },
                    &mut counts,
                );
                evals += e;
                nontrivial += n;
                // signing with a box hash incl. verify-after-sign
                let (e, n) = c23_sweep(
                    "sign IMG_0003.jpg with box hash",
                    |ctx| {
                        let shared = ctx.with_settings(r#"{"core": {"prefer_compress_manifests": true}}"#)?.into_shared();
                        let mut b = crate::Builder::from_shared_context(&shared).with_definition(r#"{"title":"t","assertions":[]}"#)?;
                        b.set_intent(crate::BuilderIntent::Create(crate::DigitalSourceType::Empty));
                        let mut src = std::io::Cursor::new(bytes.clone());
                        let mut dst = std::io::Cursor::new(Vec::new());
                        b.save_to_stream("image/jpeg", &mut src, &mut dst)?;
                        Ok(format!("signed {} bytes", dst.get_ref().len()))
                    },
                    &mut counts,
                );
                evals += e;
                nontrivial += n;
            }
            Err(e) => println!("VERIF-B-SAMPLE box-hash signing set-up failed: {e}"),
        }
    }
    // signing (embedded, data hash) incl. verify-after-sign
    for (file, mime) in [("IMG_0003.jpg", "image/jpeg"), ("libpng-test.png", "image/png"), ("video1_no_manifest.mp4", "video/mp4")] {
        let Ok(bytes) = std::fs::read(crate::utils::test::fixture_path(file)) else { continue };
        let (e, n) = c23_sweep(
            &format!("sign {file}"),
            |ctx| {
                let shared = ctx.into_shared();
                let mut b = crate::Builder::from_shared_context(&shared).with_definition(r#"{"title":"t","assertions":[]}"#)?;
                let mut src = std::io::Cursor::new(bytes.clone());
                let mut dst = std::io::Cursor::new(Vec::new());
                b.save_to_stream(mime, &mut src, &mut dst)?;
                Ok(format!("signed {} bytes", dst.get_ref().len()))
            },
            &mut counts,
        );
        evals += e;
        nontrivial += n;
    }
    println!("VERIF-B-SAMPLE violation classes this run: {:?}", counts);
    println!("VERIF-B unit=reader test=c23_cancel_at_every_callback evaluations={evals} nontrivial={nontrivial} exhaustive=true domain=every callback index k of a full run x {{read CA.jpg, C.jpg, video1.mp4, sample1.gif, exp-test1.png; sign IMG_0003.jpg, libpng-test.png, video1_no_manifest.mp4; read and sign IMG_0003.jpg with a box hash}}");
}

// the same sweep over every other writable format with a fixture: sign (with verify-after-sign) and read back
#[test]
fn c23_cancel_at_every_callback_all_formats() {
    let mut counts = std::collections::BTreeMap::new();
    let mut evals = 0usize;
    let mut nontrivial = 0usize;
    for (file, mime) in [
        ("sample1.gif", "image/gif"), ("test.tiff", "image/tiff"), ("sample1.wav", "audio/wav"), ("test.webp", "image/webp"), ("sample1.mp3", "audio/mpeg"),
        ("sample1.svg", "image/svg+xml"), ("sample1.jxl", "image/jxl"), ("sample1.flac", "audio/flac"), ("sample1.heic", "image/heic"), ("test.avi", "video/avi"),
    ] {
        let Ok(bytes) = std::fs::read(crate::utils::test::fixture_path(file)) else { continue };
        if bytes.is_empty() {
            continue;
        }
        let sign = |ctx: Context| -> std::result::Result<Vec<u8>, Error> {
            let shared = ctx.into_shared();
            let mut b = crate::Builder::from_shared_context(&shared).with_definition(r#"{"title":"t","assertions":[]}"#)?;
            b.set_intent(crate::BuilderIntent::Create(crate::DigitalSourceType::Empty));
            let mut src = std::io::Cursor::new(bytes.clone());
            let mut dst = std::io::Cursor::new(Vec::new());
            b.save_to_stream(mime, &mut src, &mut dst)?;
            Ok(dst.into_inner())
        };
        let (e, n) = c23_sweep(&format!("sign {file}"), |ctx| sign(ctx).map(|v| format!("signed {} bytes", v.len())), &mut counts);
        evals += e;
        nontrivial += n;
        if let Ok(asset) = sign(crate::utils::test::test_context()) {
            let (e, n) = c23_sweep(
                &format!("read signed {file}"),
                |ctx| {
                    let r = Reader::from_context(ctx).with_stream(mime, std::io::Cursor::new(asset.clone()))?;
                    Ok(format!("state {:?}", r.validation_state()))
                },
                &mut counts,
            );
            evals += e;
            nontrivial += n;
        }
    }
    println!("VERIF-B-SAMPLE violation classes this run: {:?}", counts);
    println!("VERIF-B unit=reader test=c23_cancel_at_every_callback_all_formats evaluations={evals} nontrivial={nontrivial} exhaustive=true domain=every callback index k of signing and of reading back fixtures of GIF, TIFF, WAV, WebP, MP3, SVG, JPEG XL, FLAC, HEIC, AVI");
}

// the remaining operations of the statement: fragmented read, sidecar read and ingredient import
#[test]
fn c23_cancel_fragment_sidecar_ingredient() {
    let mut counts = std::collections::BTreeMap::new();
    let mut evals = 0usize;
    let mut nontrivial = 0usize;
    // fragmented BMFF: init segment + one fragment
    if let (Ok(init), Ok(frag)) = (std::fs::read(crate::utils::test::fixture_path("dashinit.mp4")), std::fs::read(crate::utils::test::fixture_path("dash1.m4s"))) {
        let (e, n) = c23_sweep(
            "read fragment dashinit.mp4 + dash1.m4s",
            |ctx| {
                let r = Reader::from_context(ctx).with_fragment("video/mp4", std::io::Cursor::new(init.clone()), std::io::Cursor::new(frag.clone()))?;
                Ok(format!("state {:?}", r.validation_state()))
            },
            &mut counts,
        );
        evals += e;
        nontrivial += n;
    }
    // sidecar: sign without embedding, read the manifest bytes back against the unchanged asset
    if let Ok(bytes) = std::fs::read(crate::utils::test::fixture_path("IMG_0003.jpg")) {
        let sidecar: std::result::Result<Vec<u8>, Error> = (|| {
            let shared = crate::utils::test::test_context().into_shared();
            let mut b = crate::Builder::from_shared_context(&shared).with_definition(r#"{"title":"t","assertions":[]}"#)?;
            b.set_intent(crate::BuilderIntent::Create(crate::DigitalSourceType::Empty));
            b.set_no_embed(true);
            let mut src = std::io::Cursor::new(bytes.clone());
            let mut dst = std::io::Cursor::new(Vec::new());
            b.save_to_stream("image/jpeg", &mut src, &mut dst)
        })();
        match sidecar {
            Ok(manifest) => {
                let (e, n) = c23_sweep(
                    "read sidecar manifest of IMG_0003.jpg",
                    |ctx| {
                        let r = Reader::from_context(ctx).with_manifest_data_and_stream(&manifest, "image/jpeg", std::io::Cursor::new(bytes.clone()))?;
                        Ok(format!("state {:?}", r.validation_state()))
                    },
                    &mut counts,
                );
                evals += e;
                nontrivial += n;
                let (e, n) = c23_sweep(
                    "sign IMG_0003.jpg without embedding",
                    |ctx| {
                        let shared = ctx.into_shared();
                        let mut b = crate::Builder::from_shared_context(&shared).with_definition(r#"{"title":"t","assertions":[]}"#)?;
                        b.set_intent(crate::BuilderIntent::Create(crate::DigitalSourceType::Empty));
                        b.set_no_embed(true);
                        let mut src = std::io::Cursor::new(bytes.clone());
                        let mut dst = std::io::Cursor::new(Vec::new());
                        let m = b.save_to_stream("image/jpeg", &mut src, &mut dst)?;
                        Ok(format!("sidecar of {} bytes", m.len()))
                    },
                    &mut counts,
                );
                evals += e;
                nontrivial += n;
            }
            Err(e) => println!("VERIF-B-SAMPLE sidecar signing set-up failed: {e}"),
        }
    }
    // ingredient import: assets that carry a manifest (data hash, BMFF hash) and one that does not
    for (file, mime) in [("C.jpg", "image/jpeg"), ("CA.jpg", "image/jpeg"), ("video1.mp4", "video/mp4"), ("IMG_0003.jpg", "image/jpeg")] {
        let Ok(bytes) = std::fs::read(crate::utils::test::fixture_path(file)) else { continue };
        let (e, n) = c23_sweep(
            &format!("import ingredient {file}"),
            |ctx| {
                let shared = ctx.into_shared();
                let mut b = crate::Builder::from_shared_context(&shared).with_definition(r#"{"title":"t","assertions":[]}"#)?;
                let ing = b.add_ingredient_from_stream(r#"{"title":"i","relationship":"parentOf"}"#, mime, &mut std::io::Cursor::new(bytes.clone()))?;
                Ok(format!("ingredient imported, validation_status {:?}", ing.validation_status().map(|v| v.iter().map(|s| s.code().to_string()).collect::<Vec<_>>())))
            },
            &mut counts,
        );
        evals += e;
        nontrivial += n;
        // import followed by signing
        let (e, n) = c23_sweep(
            &format!("import ingredient {file} and sign"),
            |ctx| {
                let shared = ctx.into_shared();
                let mut b = crate::Builder::from_shared_context(&shared).with_definition(r#"{"title":"t","assertions":[]}"#)?;
                b.add_ingredient_from_stream(r#"{"title":"i","relationship":"parentOf"}"#, mime, &mut std::io::Cursor::new(bytes.clone()))?;
                let mut src = std::io::Cursor::new(bytes.clone());
                let mut dst = std::io::Cursor::new(Vec::new());
                b.save_to_stream(mime, &mut src, &mut dst)?;
                Ok(format!("signed {} bytes", dst.get_ref().len()))
            },
            &mut counts,
        );
        evals += e;
        nontrivial += n;
    }
    // ingredient import that asks an OCSP responder (ocsp.jpg: signer certificate with an OCSP responder URL), through a
    // resolver that answers every request with an error: the FetchingOCSP checkpoints are reached without a network
    if let Ok(bytes) = std::fs::read(crate::utils::test::fixture_path("ocsp.jpg")) {
        struct Refuse;
        impl crate::http::SyncHttpResolver for Refuse {
            fn http_resolve(&self, _request: http::Request<Vec<u8>>) -> std::result::Result<http::Response<Box<dyn std::io::Read>>, crate::http::HttpResolverError> {
                Err(crate::http::HttpResolverError::Io(std::io::Error::new(std::io::ErrorKind::Other, "refused")))
            }
        }
        let (e, n) = c23_sweep(
            "import ingredient ocsp.jpg with certificate_status_fetch=all",
            |ctx| {
                let shared = ctx.with_settings(r#"{"builder": {"certificate_status_fetch": "all"}}"#)?.with_resolver(Refuse).into_shared();
                let mut b = crate::Builder::from_shared_context(&shared).with_definition(r#"{"title":"t","assertions":[]}"#)?;
                let ing = b.add_ingredient_from_stream(r#"{"title":"i","relationship":"parentOf"}"#, "image/jpeg", &mut std::io::Cursor::new(bytes.clone()))?;
                Ok(format!("ingredient imported, validation_status {:?}", ing.validation_status().map(|v| v.iter().map(|s| s.code().to_string()).collect::<Vec<_>>())))
            },
            &mut counts,
        );
        evals += e;
        nontrivial += n;
    }
    println!("VERIF-B-SAMPLE violation classes this run: {:?}", counts);
    println!("VERIF-B unit=reader test=c23_cancel_fragment_sidecar_ingredient evaluations={evals} nontrivial={nontrivial} exhaustive=true domain=every callback index k of {{fragmented read dashinit.mp4+dash1.m4s; sidecar sign and read of IMG_0003.jpg; ingredient import (and import+sign) of C.jpg, CA.jpg, video1.mp4, IMG_0003.jpg; ingredient import of ocsp.jpg with OCSP fetching through a refusing resolver}}");
}

// ---------------------------------------------------------------- C04 (Engine B): the legacy status-list fallback of Reader::validation_state
// A Reader without a results object (restored from older JSON) decides from the flat list of validation errors.  For
// every list of up to 3 entries over 6 codes (the tolerated one, hard failures, an unknown code), with the entries
// built as failures or as they come out of serde (kind is not serialized), and verify_trust on / off:
//   Trusted only if the list holds no failure at all; Valid only if every code is a tolerated credential code;
//   adding a non-tolerated failure never gives Valid or Trusted.
#[test]
fn c04_legacy_status_list_fallback() {
    use crate::validation_status as vs;
    let codes = [vs::SIGNING_CREDENTIAL_UNTRUSTED, vs::ASSERTION_DATAHASH_MISMATCH, vs::CLAIM_SIGNATURE_MISMATCH, vs::SIGNING_CREDENTIAL_REVOKED, vs::ASSERTION_HASHEDURI_MISMATCH, "org.example.unknown"];
    let tolerated = |c: &str| c == vs::SIGNING_CREDENTIAL_UNTRUSTED || c.starts_with("cawg.");
    let mut lists: Vec<Vec<usize>> = vec![vec![]];
    for a in 0..codes.len() {
        lists.push(vec![a]);
        for b in 0..codes.len() {
            lists.push(vec![a, b]);
            for c in 0..codes.len() {
                lists.push(vec![a, b, c]);
            }
        }
    }
    let mut evals = 0usize;
    let mut nontrivial = 0usize;
    let mut counts: std::collections::BTreeMap<String, usize> = std::collections::BTreeMap::new();
    let mut bad = |k: &str, input: String, counts: &mut std::collections::BTreeMap<String, usize>| {
        let c = counts.entry(k.to_string()).or_insert(0);
        *c += 1;
        if *c <= 3 {
            println!("VERIF-B-VIOLATION key={k} input={input}");
        }
    };
    for verify_trust in [true, false] {
        for deserialized in [false, true] {
            for list in &lists {
                let mut ctx = Context::new();
                ctx.settings_mut().verify.verify_trust = verify_trust;
                let statuses: Vec<ValidationStatus> = list
                    .iter()
                    .map(|i| {
                        if deserialized {
                            serde_json::from_value(serde_json::json!({"code": codes[*i]})).unwrap_or_else(|_| ValidationStatus::new_failure(codes[*i]))
                        } else {
                            ValidationStatus::new_failure(codes[*i])
                        }
                    })
                    .collect();
                let mut r = Reader::from_context(ctx);
                r.validation_results = None;
                r.validation_status = if list.is_empty() && deserialized { None } else { Some(statuses) };
                let state = r.validation_state();
                evals += 1;
                if !list.is_empty() {
                    nontrivial += 1;
                }
                let desc = || format!("validation_status={:?} (entries {}) verify_trust={verify_trust} -> {state:?}", list.iter().map(|i| codes[*i]).collect::<Vec<_>>(), if deserialized { "as deserialized" } else { "built as failures" });
                let any_hard = list.iter().any(|i| !tolerated(codes[*i]));
                match state {
                    ValidationState::Trusted => {
                        if !list.is_empty() {
                            bad(if any_hard { "legacy_state.hard_failure_reported_trusted" } else { "legacy_state.tolerated_failure_reported_trusted" }, desc(), &mut counts);
                        } else if !verify_trust {
                            bad("legacy_state.trusted_without_trust_check", desc(), &mut counts);
                        }
                    }
                    ValidationState::Valid => {
                        if any_hard {
                            bad("legacy_state.hard_failure_reported_valid", desc(), &mut counts);
                        }
                    }
                    ValidationState::Invalid => {}
                }
            }
        }
    }
    println!("VERIF-B-SAMPLE violation classes this run: {:?}", counts);
    println!("VERIF-B unit=reader test=c04_legacy_status_list_fallback evaluations={evals} nontrivial={nontrivial} exhaustive=true domain=every list of <= 3 entries over 6 codes (tolerated, 4 hard failures, unknown) x entries built as failures / as deserialized x verify_trust on / off, through Reader::validation_state without a results object");
}

// ---------------------------------------------------------------- C35 (Engine B): short reads and injected I/O faults at the public API
// (a) a stream that returns data in small pieces gives the same result as the plain stream;
// (b) a stream that breaks at its k-th operation (that read / seek and all later ones fail), for EVERY k of a full
//     run, makes the read return an error -
//     never a panic and never a result that reports Valid / Trusted.
#[cfg(test)]
struct Wrapped {
    inner: std::io::Cursor<Vec<u8>>,
    piece: usize,                    // 0 = unlimited
    fail_at: Option<usize>,          // from this operation index on every operation fails (the stream is broken)
    once: bool,                      // only the operation with index fail_at fails (a transient fault)
    ops: std::sync::Arc<std::sync::atomic::AtomicUsize>,
}
#[cfg(test)]
impl Wrapped {
    fn tick(&self) -> std::io::Result<()> {
        let k = self.ops.fetch_add(1, std::sync::atomic::Ordering::SeqCst);
        if self.fail_at.is_some_and(|f| if self.once { k == f } else { k >= f }) {
            return Err(std::io::Error::other("injected fault"));
        }
        Ok(())
    }
}
#[cfg(test)]
impl std::io::Read for Wrapped {
    fn read(&mut self, buf: &mut [u8]) -> std::io::Result<usize> {
        self.tick()?;
        let n = if self.piece == 0 { buf.len() } else { buf.len().min(self.piece) };
        std::io::Read::read(&mut self.inner, &mut buf[..n])
    }
}
#[cfg(test)]
impl std::io::Seek for Wrapped {
    fn seek(&mut self, p: std::io::SeekFrom) -> std::io::Result<u64> {
        self.tick()?;
        std::io::Seek::seek(&mut self.inner, p)
    }
}

#[test]
fn c35_short_reads_and_injected_faults() {
    use std::sync::{atomic::{AtomicUsize, Ordering}, Arc};
    let thorough = std::env::var("VERIF_B_TIER").map(|t| t == "thorough").unwrap_or(false);
    let mut evals = 0usize;
    let mut nontrivial = 0usize;
    let mut counts: std::collections::BTreeMap<String, usize> = std::collections::BTreeMap::new();
    let mut bad = |k: String, input: String, counts: &mut std::collections::BTreeMap<String, usize>| {
        let c = counts.entry(k.clone()).or_insert(0);
        *c += 1;
        if *c <= 3 {
            println!("VERIF-B-VIOLATION key={k} input={input}");
        }
    };
    let describe = |r: &Result<Reader>| -> String {
        match r {
            Ok(rd) => format!("Ok({:?}, active={:?})", rd.validation_state(), rd.active_label()),
            Err(e) => format!("Err({})", e.to_string().chars().take(60).collect::<String>()),
        }
    };
    for (file, mime) in [("C.jpg", "image/jpeg"), ("CA.jpg", "image/jpeg"), ("video1.mp4", "video/mp4"), ("libpng-test.png", "image/png"), ("sample1.gif", "image/gif"), ("no_manifest.jpg", "image/jpeg")] {
        let Ok(bytes) = std::fs::read(crate::utils::test::fixture_path(file)) else { continue };
        let read_with = |piece: usize, fail_at: Option<usize>| -> (Result<Reader>, usize, bool) {
            let ops = Arc::new(AtomicUsize::new(0));
            let w = Wrapped { inner: std::io::Cursor::new(bytes.clone()), piece, fail_at, once: false, ops: Arc::clone(&ops) };
            let r = std::panic::catch_unwind(std::panic::AssertUnwindSafe(|| Reader::from_context(crate::utils::test::test_context()).with_stream(mime, w)));
            match r {
                Ok(r) => (r, ops.load(Ordering::SeqCst), false),
                Err(_) => (Err(Error::OtherError("panic".into())), ops.load(Ordering::SeqCst), true),
            }
        };
        let (plain, total_ops, _) = read_with(0, None);
        let want = describe(&plain);
        // (a) short reads
        for piece in [1usize, 2, 3, 7, 16, 1000] {
            evals += 1;
            nontrivial += 1;
            let (r, _, panicked) = read_with(piece, None);
            if panicked {
                bad("io.short_read_panic".to_string(), format!("{file}: piece size {piece}"), &mut counts);
            } else if describe(&r) != want {
                bad("io.result_depends_on_read_size".to_string(), format!("{file}: piece size {piece}: {} instead of {want}", describe(&r)), &mut counts);
            }
        }
        // (b) a fault at every operation index (quick: every index up to 400, then every 13th)
        let mut k = 0usize;
        while k < total_ops {
            evals += 1;
            nontrivial += 1;
            let (r, _, panicked) = read_with(0, Some(k));
            if panicked {
                bad("io.fault_panic".to_string(), format!("{file}: fault at operation {k} of {total_ops}"), &mut counts);
            } else if let Ok(rd) = &r {
                if rd.validation_state() != ValidationState::Invalid {
                    bad("io.fault_hidden_result_valid".to_string(), format!("{file}: fault at operation {k} of {total_ops} -> {}", describe(&r)), &mut counts);
                } else {
                    bad("io.fault_hidden_result_ok".to_string(), format!("{file}: fault at operation {k} of {total_ops} -> {}", describe(&r)), &mut counts);
                }
            }
            k += if thorough || k < 400 { 1 } else { 13 };
        }
        println!("VERIF-B-SAMPLE {file}: plain read {want}, {total_ops} stream operations");
    }
    println!("VERIF-B-SAMPLE violation classes this run: {:?}", counts);
    println!("VERIF-B unit=reader test=c35_short_reads_and_injected_faults evaluations={evals} nontrivial={nontrivial} exhaustive={} domain=read of C.jpg, CA.jpg, video1.mp4, libpng-test.png, sample1.gif, no_manifest.jpg x piece sizes {{1,2,3,7,16,1000}} and an I/O fault at every stream operation index (quick: all below 400, then every 13th)", thorough);
}


// short reads (and a breaking stream at a sample of operation indices) while reading assets of every writable format
// that the SDK itself signed - this reaches the manifest-fetching read helpers of every handler
#[test]
fn c35_short_reads_signed_assets_all_formats() {
    use std::sync::{atomic::{AtomicUsize, Ordering}, Arc};
    let mut evals = 0usize;
    let mut nontrivial = 0usize;
    let mut counts: std::collections::BTreeMap<String, usize> = std::collections::BTreeMap::new();
    let mut bad = |k: String, input: String, counts: &mut std::collections::BTreeMap<String, usize>| {
        let c = counts.entry(k.clone()).or_insert(0);
        *c += 1;
        if *c <= 3 {
            println!("VERIF-B-VIOLATION key={k} input={input}");
        }
    };
    let describe = |r: &Result<Reader>| -> String {
        match r {
            Ok(rd) => format!("Ok({:?}, active={:?})", rd.validation_state(), rd.active_label().map(|l| l.len())),
            Err(e) => format!("Err({})", e.to_string().chars().take(60).collect::<String>()),
        }
    };
    for (file, mime) in [
        ("IMG_0003.jpg", "image/jpeg"), ("libpng-test.png", "image/png"), ("sample1.gif", "image/gif"), ("test.tiff", "image/tiff"), ("sample1.wav", "audio/wav"),
        ("test.webp", "image/webp"), ("sample1.mp3", "audio/mpeg"), ("sample1.svg", "image/svg+xml"), ("sample1.jxl", "image/jxl"), ("sample1.flac", "audio/flac"),
        ("video1_no_manifest.mp4", "video/mp4"), ("test.avi", "video/avi"),
    ] {
        let Ok(bytes) = std::fs::read(crate::utils::test::fixture_path(file)) else { continue };
        if bytes.is_empty() {
            continue;
        }
        let signed: std::result::Result<Vec<u8>, Error> = (|| {
            let shared = crate::utils::test::test_context().into_shared();
            let mut b = crate::Builder::from_shared_context(&shared).with_definition(r#"{"title":"t","assertions":[]}"#)?;
            b.set_intent(crate::BuilderIntent::Create(crate::DigitalSourceType::Empty));
            let mut src = std::io::Cursor::new(bytes.clone());
            let mut dst = std::io::Cursor::new(Vec::new());
            b.save_to_stream(mime, &mut src, &mut dst)?;
            Ok(dst.into_inner())
        })();
        let Ok(asset) = signed else { continue };
        let read_with = |piece: usize, fail_at: Option<usize>| -> (Result<Reader>, usize, bool) {
            let ops = Arc::new(AtomicUsize::new(0));
            let w = Wrapped { inner: std::io::Cursor::new(asset.clone()), piece, fail_at, once: false, ops: Arc::clone(&ops) };
            let r = std::panic::catch_unwind(std::panic::AssertUnwindSafe(|| Reader::from_context(crate::utils::test::test_context()).with_stream(mime, w)));
            match r {
                Ok(r) => (r, ops.load(Ordering::SeqCst), false),
                Err(_) => (Err(Error::OtherError("panic".into())), ops.load(Ordering::SeqCst), true),
            }
        };
        let (plain, total_ops, _) = read_with(0, None);
        let want = describe(&plain);
        for piece in [1usize, 7, 100, 4096] {
            // one-byte reads of a large asset are slow: skip them above 300 kB
            if piece == 1 && asset.len() > 300_000 {
                continue;
            }
            evals += 1;
            nontrivial += 1;
            let (r, _, panicked) = read_with(piece, None);
            if panicked {
                bad("io.short_read_panic".to_string(), format!("signed {file}: piece size {piece}"), &mut counts);
            } else if describe(&r) != want {
                bad(format!("io.result_depends_on_read_size.{}", file.rsplit('.').next().unwrap_or("")), format!("signed {file}: piece size {piece}: {} instead of {want}", describe(&r)), &mut counts);
            }
        }
        let step = (total_ops / 40).max(1);
        let mut k = 0usize;
        while k < total_ops {
            evals += 1;
            let (r, _, panicked) = read_with(0, Some(k));
            if panicked {
                bad("io.fault_panic".to_string(), format!("signed {file}: stream breaks at operation {k} of {total_ops}"), &mut counts);
            } else if let Ok(rd) = &r {
                if rd.validation_state() != ValidationState::Invalid {
                    bad("io.fault_hidden_result_valid".to_string(), format!("signed {file}: stream breaks at operation {k} of {total_ops} -> {}", describe(&r)), &mut counts);
                } else {
                    bad("io.fault_hidden_result_ok".to_string(), format!("signed {file}: stream breaks at operation {k} of {total_ops} -> {}", describe(&r)), &mut counts);
                }
            }
            k += step;
        }
        println!("VERIF-B-SAMPLE signed {file} ({} bytes): plain read {want}, {total_ops} stream operations", asset.len());
    }
    println!("VERIF-B-SAMPLE violation classes this run: {:?}", counts);
    println!("VERIF-B unit=reader test=c35_short_reads_signed_assets_all_formats evaluations={evals} nontrivial={nontrivial} exhaustive=false domain=assets of 12 formats signed by the SDK, read back with piece sizes {{1 (small assets),7,100,4096}} and with the stream breaking at 40 evenly spaced operation indices");
}

// (c) signing from a source stream that fails ONCE, at its k-th operation: the sign call returns an error, or - when the
//     failing operation was a probe whose result the SDK does not need - an asset with exactly the layout of the fault-free
//     run (same manifest-store position and length, every other byte identical; BMFF: same total length) that validates the same way.  A hidden
//     fault with an equivalent result is its own class; a hidden fault with a DIFFERENT result is the alarm.
#[test]
fn c35_sign_with_transient_source_faults() {
    use std::sync::{atomic::{AtomicUsize, Ordering}, Arc};
    let thorough = std::env::var("VERIF_B_TIER").map(|t| t == "thorough").unwrap_or(false);
    let max_points = if thorough { 600 } else { 160 };
    let mut evals = 0usize;
    let mut nontrivial = 0usize;
    let mut counts: std::collections::BTreeMap<String, usize> = std::collections::BTreeMap::new();
    let mut bad = |k: String, input: String, counts: &mut std::collections::BTreeMap<String, usize>| {
        let c = counts.entry(k.clone()).or_insert(0);
        *c += 1;
        if *c <= 3 {
            println!("VERIF-B-VIOLATION key={k} input={input}");
        }
    };
    // layout of a signed asset: (manifest store positions, all other bytes, validation state)
    let layout = |mime: &str, asset: &[u8]| -> (Vec<(usize, usize)>, Vec<u8>, String) {
        let mut cai: Vec<(usize, usize)> = crate::jumbf_io::object_locations_from_stream(mime, &mut std::io::Cursor::new(asset.to_vec()))
            .map(|v| v.iter().filter(|p| p.htype == crate::asset_io::HashBlockObjectType::Cai).map(|p| (p.offset, p.length)).collect())
            .unwrap_or_default();
        cai.sort();
        let mut rest = Vec::with_capacity(asset.len());
        let mut pos = 0usize;
        for (o, l) in &cai {
            if *o >= pos && *o <= asset.len() {
                rest.extend_from_slice(&asset[pos..*o]);
                pos = (*o + *l).min(asset.len());
            }
        }
        rest.extend_from_slice(&asset[pos.min(asset.len())..]);
        if cai.is_empty() {
            // the handler reports no manifest-store position (BMFF): the store bytes differ from run to run (fresh
            // identifiers), so only the total length and the verdict can be compared
            rest = format!("{} bytes", asset.len()).into_bytes();
        }
        let state = match Reader::from_context(crate::utils::test::test_context()).with_stream(mime, std::io::Cursor::new(asset.to_vec())) {
            Ok(r) => format!("{:?}", r.validation_state()),
            Err(e) => format!("Err({})", e.to_string().chars().take(40).collect::<String>()),
        };
        (cai, rest, state)
    };
    for (file, mime) in [
        ("IMG_0003.jpg", "image/jpeg"), ("libpng-test.png", "image/png"), ("sample1.gif", "image/gif"), ("test.tiff", "image/tiff"), ("sample1.wav", "audio/wav"),
        ("test.webp", "image/webp"), ("sample1.mp3", "audio/mpeg"), ("sample1.svg", "image/svg+xml"), ("sample1.jxl", "image/jxl"), ("sample1.flac", "audio/flac"),
        ("video1_no_manifest.mp4", "video/mp4"), ("test.avi", "video/avi"),
    ] {
        let Ok(bytes) = std::fs::read(crate::utils::test::fixture_path(file)) else { continue };
        if bytes.is_empty() {
            continue;
        }
        let sign_with = |fail_at: Option<usize>| -> (std::result::Result<Vec<u8>, Error>, usize, bool) {
            let ops = Arc::new(AtomicUsize::new(0));
            let mut src = Wrapped { inner: std::io::Cursor::new(bytes.clone()), piece: 0, fail_at, once: true, ops: Arc::clone(&ops) };
            let r = std::panic::catch_unwind(std::panic::AssertUnwindSafe(|| -> std::result::Result<Vec<u8>, Error> {
                let shared = crate::utils::test::test_context().into_shared();
                let mut b = crate::Builder::from_shared_context(&shared).with_definition(r#"{"title":"t","assertions":[]}"#)?;
                b.set_intent(crate::BuilderIntent::Create(crate::DigitalSourceType::Empty));
                let mut dst = std::io::Cursor::new(Vec::new());
                b.save_to_stream(mime, &mut src, &mut dst)?;
                Ok(dst.into_inner())
            }));
            match r {
                Ok(r) => (r, ops.load(Ordering::SeqCst), false),
                Err(_) => (Err(Error::OtherError("panic".into())), ops.load(Ordering::SeqCst), true),
            }
        };
        let (plain, total_ops, _) = sign_with(None);
        let Ok(reference) = plain else {
            println!("VERIF-B-SAMPLE {file}: fault-free signing failed, skipped");
            continue;
        };
        let want = layout(mime, &reference);
        let step = (total_ops / max_points).max(1);
        let mut hidden_same = 0usize;
        let mut k = 0usize;
        while k < total_ops {
            evals += 1;
            nontrivial += 1;
            let (r, _, panicked) = sign_with(Some(k));
            if panicked {
                bad(format!("io.sign_fault_panic.{}", file.rsplit('.').next().unwrap_or("")), format!("{file}: source operation {k} of {total_ops} fails once -> panic"), &mut counts);
            } else if let Ok(out) = r {
                let got = layout(mime, &out);
                if got == want {
                    hidden_same += 1;
                } else {
                    let what = if got.0 != want.0 { format!("manifest store at {:?} instead of {:?}", got.0, want.0) } else if got.2 != want.2 { format!("reads back {} instead of {}", got.2, want.2) } else { "asset bytes outside the manifest store differ".to_string() };
                    bad(format!("io.sign_fault_hidden_result_differs.{}", file.rsplit('.').next().unwrap_or("")), format!("{file}: source operation {k} of {total_ops} fails once -> Ok, {what}"), &mut counts);
                }
            }
            k += step;
        }
        if hidden_same > 0 {
            bad(format!("io.sign_fault_hidden_result_equivalent.{}", file.rsplit('.').next().unwrap_or("")), format!("{file}: {hidden_same} of the injected one-shot source faults ({total_ops} operations, every {step}th tried) are not reported; the signed asset has the fault-free layout and validates as {}", want.2), &mut counts);
        }
        println!("VERIF-B-SAMPLE sign {file}: {total_ops} source operations, fault-free result {} with the manifest store at {:?}", want.2, want.0);
    }
    println!("VERIF-B-SAMPLE violation classes this run: {:?}", counts);
    println!("VERIF-B unit=reader test=c35_sign_with_transient_source_faults evaluations={evals} nontrivial={nontrivial} exhaustive=false domain=signing fixtures of 12 formats from a source stream whose k-th read / seek fails once, k over up to {max_points} evenly spaced operation indices of the fault-free run");
}
