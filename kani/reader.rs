// unit reader: sdk/src/reader.rs (included by the cfg(kani) hook at the end of that file)
// C23 (propagation at the public API, Engine B): for every callback invocation index k of a read / sign run, returning
// false at the k-th invocation ends the operation with Error::OperationCancelled - never Ok, never another error.
// Also the step discipline: step >= 1, step <= total when total != 0, strictly increasing within a run of one phase.
#[allow(unused_imports)]
use super::*;

#[cfg(test)]
fn c23_sweep<F>(label: &str, run: F, counts: &mut std::collections::BTreeMap<String, usize>) -> (usize, usize)
where
    F: Fn(Context) -> std::result::Result<String, Error>,
{
    use std::sync::{
        atomic::{AtomicUsize, Ordering},
        Arc, Mutex,
    };
    // a full run: count callbacks and check the step discipline
    let seen: Arc<Mutex<Vec<(String, u32, u32)>>> = Arc::new(Mutex::new(Vec::new()));
    let s2 = Arc::clone(&seen);
    let ctx = crate::utils::test::test_context().with_progress_callback(move |p, s, t| {
        s2.lock().unwrap().push((format!("{p:?}"), s, t));
        true
    });
    let full = run(ctx);
    let calls = seen.lock().unwrap().clone();
    let total = calls.len();
    let mut bad = |k: String, input: String, counts: &mut std::collections::BTreeMap<String, usize>| {
        let c = counts.entry(k.clone()).or_insert(0);
        *c += 1;
        if *c <= 3 {
            println!("VERIF-B-VIOLATION key={k} input={input}");
        }
    };
    if full.is_err() {
        println!("VERIF-B-SAMPLE {label}: uncancelled run failed: {:?}", full.err());
        return (0, 0);
    }
    let mut prev: Option<(String, u32)> = None;
    for (i, (p, s, t)) in calls.iter().enumerate() {
        if *s < 1 || (*t != 0 && s > t) {
            bad("progress.step_out_of_range".to_string(), format!("{label}: callback {i} phase {p} step {s} total {t}"), counts);
        }
        if let Some((pp, ps)) = &prev {
            if pp == p && *s <= *ps && *s != 1 {
                bad("progress.step_not_increasing".to_string(), format!("{label}: callback {i} phase {p} step {s} after step {ps}"), counts);
            }
        }
        prev = Some((p.clone(), *s));
    }
    let mut evals = 1usize;
    for k in 0..total {
        evals += 1;
        let c = Arc::new(AtomicUsize::new(0));
        let c2 = Arc::clone(&c);
        let ctx = crate::utils::test::test_context().with_progress_callback(move |_p, _s, _t| c2.fetch_add(1, Ordering::SeqCst) != k);
        match run(ctx) {
            Err(Error::OperationCancelled) => {}
            Err(e) => bad("cancel.reported_as_other_error".to_string(), format!("{label}: cancel at callback {k} ({:?}) -> Err({e})", calls[k]), counts),
            Ok(desc) => bad(format!("cancel.swallowed.{}", calls[k].0), format!("{label}: cancel at callback {k} ({:?}) -> Ok: {desc}", calls[k]), counts),
        }
    }
    println!("VERIF-B-SAMPLE {label}: {total} callbacks in a full run ({}), phases {:?}", full.as_deref().unwrap_or("?"), calls.iter().map(|c| c.0.clone()).collect::<std::collections::BTreeSet<_>>());
    (evals, total)
}

#[test]
fn c23_cancel_at_every_callback() {
    let mut counts = std::collections::BTreeMap::new();
    let mut evals = 0usize;
    let mut nontrivial = 0usize;
    // reads of signed fixtures: data hash (JPEG), BMFF hash (MP4), box hash is produced below
    for (file, mime) in [("CA.jpg", "image/jpeg"), ("C.jpg", "image/jpeg"), ("video1.mp4", "video/mp4"), ("sample1.gif", "image/gif"), ("exp-test1.png", "image/png")] {
        let Ok(bytes) = std::fs::read(crate::utils::test::fixture_path(file)) else { continue };
        let (e, n) = c23_sweep(
            &format!("read {file}"),
            |ctx| {
                let r = Reader::from_context(ctx).with_stream(mime, std::io::Cursor::new(bytes.clone()))?;
                Ok(format!("state {:?}", r.validation_state()))
            },
            &mut counts,
        );
        evals += e;
        nontrivial += n;
    }
    // a box-hash bound asset: sign with prefer_box_hash, then read it back with a cancel at every callback
    if let Ok(bytes) = std::fs::read(crate::utils::test::fixture_path("IMG_0003.jpg")) {
        let signed: std::result::Result<Vec<u8>, Error> = (|| {
            let ctx = crate::utils::test::test_context().with_settings(r#"{"core": {"prefer_compress_manifests": true}}"#)?.into_shared();
            let mut b = crate::Builder::from_shared_context(&ctx).with_definition(r#"{"title":"t","assertions":[]}"#)?;
            b.set_intent(crate::BuilderIntent::Create(crate::DigitalSourceType::Empty));
            let mut src = std::io::Cursor::new(bytes.clone());
            let mut dst = std::io::Cursor::new(Vec::new());
            b.save_to_stream("image/jpeg", &mut src, &mut dst)?;
            Ok(dst.into_inner())
        })();
        match signed {
            Ok(asset) => {
                let (e, n) = c23_sweep(
                    "read box-hash signed IMG_0003.jpg",
                    |ctx| {
                        let r = Reader::from_context(ctx).with_stream("image/jpeg", std::io::Cursor::new(asset.clone()))?;
                        let bound_by_boxes = r.json().contains("c2pa.hash.boxes");
                        Ok(format!("state {:?} box_hash={bound_by_boxes}", r.validation_state()))
                    },
                    &mut counts,
                );
                evals += e;
                nontrivial += n;
                // signing with a box hash incl. verify-after-sign
                let (e, n) = c23_sweep(
                    "sign IMG_0003.jpg with box hash",
                    |ctx| {
                        let shared = ctx.with_settings(r#"{"core": {"prefer_compress_manifests": true}}"#)?.into_shared();
                        let mut b = crate::Builder::from_shared_context(&shared).with_definition(r#"{"title":"t","assertions":[]}"#)?;
                        b.set_intent(crate::BuilderIntent::Create(crate::DigitalSourceType::Empty));
                        let mut src = std::io::Cursor::new(bytes.clone());
                        let mut dst = std::io::Cursor::new(Vec::new());
                        b.save_to_stream("image/jpeg", &mut src, &mut dst)?;
                        Ok(format!("signed {} bytes", dst.get_ref().len()))
                    },
                    &mut counts,
                );
                evals += e;
                nontrivial += n;
            }
            Err(e) => println!("VERIF-B-SAMPLE box-hash signing set-up failed: {e}"),
        }
    }
    // signing (embedded, data hash) incl. verify-after-sign
    for (file, mime) in [("IMG_0003.jpg", "image/jpeg"), ("libpng-test.png", "image/png"), ("video1_no_manifest.mp4", "video/mp4")] {
        let Ok(bytes) = std::fs::read(crate::utils::test::fixture_path(file)) else { continue };
        let (e, n) = c23_sweep(
            &format!("sign {file}"),
            |ctx| {
                let shared = ctx.into_shared();
                let mut b = crate::Builder::from_shared_context(&shared).with_definition(r#"{"title":"t","assertions":[]}"#)?;
                let mut src = std::io::Cursor::new(bytes.clone());
                let mut dst = std::io::Cursor::new(Vec::new());
                b.save_to_stream(mime, &mut src, &mut dst)?;
                Ok(format!("signed {} bytes", dst.get_ref().len()))
            },
            &mut counts,
        );
        evals += e;
        nontrivial += n;
    }
    println!("VERIF-B-SAMPLE violation classes this run: {:?}", counts);
    println!("VERIF-B unit=reader test=c23_cancel_at_every_callback evaluations={evals} nontrivial={nontrivial} exhaustive=true domain=every callback index k of a full run x {{read CA.jpg, C.jpg, video1.mp4, sample1.gif, exp-test1.png; sign IMG_0003.jpg, libpng-test.png, video1_no_manifest.mp4; read and sign IMG_0003.jpg with a box hash}}");
}
