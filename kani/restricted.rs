// unit restricted: harnesses for sdk/src/http/restricted.rs (included by the cfg(kani) hook at the end of that file)
// C27 (address classification, host-string kernels) and C26 (allow-list enforcement, pattern matching).
#[allow(unused_imports)]
use super::*;
use std::sync::atomic::{AtomicBool, AtomicUsize, Ordering};

// ---------------------------------------------------------------- C27: specification taken from the statement
// IPv4 ranges that must never be reached: 0/8, 10/8, 127/8, 169.254/16, 172.16/12, 192.168/16, 192.0.2/24,
// 198.51.100/24, 203.0.113/24, 224/4 (multicast), 255.255.255.255, 100.64/10
pub(super) fn spec_v4(x: u32) -> bool {
    let a = (x >> 24) as u8;
    let b = ((x >> 16) & 0xff) as u8;
    let c = ((x >> 8) & 0xff) as u8;
    a == 0
        || a == 127
        || a == 10
        || (a == 172 && (b & 0xf0) == 16)
        || (a == 192 && b == 168)
        || (a == 169 && b == 254)
        || x == 0xffff_ffff
        || (a == 192 && b == 0 && c == 2)
        || (a == 198 && b == 51 && c == 100)
        || (a == 203 && b == 0 && c == 113)
        || (a & 0xf0) == 224
        || (a == 100 && (b & 0xc0) == 64)
}

// IPv6: ::, ::1, ff00::/8, fc00::/7, fe80::/10, and ::ffff:a.b.c.d classified by the IPv4 rule
pub(super) fn spec_v6(x: u128) -> bool {
    let seg0 = (x >> 112) as u16;
    let mapped = (x >> 32) == 0xffff;
    if mapped {
        spec_v4(x as u32)
    } else {
        x == 0 || x == 1 || (seg0 & 0xff00) == 0xff00 || (seg0 & 0xfe00) == 0xfc00 || (seg0 & 0xffc0) == 0xfe80
    }
}

// complete: loop-free, all 2^32 addresses, checked against the in-place contract
#[kani::proof_for_contract(ipv4_is_non_global)]
fn c27_v4_contract() {
    let x: u32 = kani::any();
    kani::cover!(spec_v4(x), "a blocked v4 address exists");
    kani::cover!(!spec_v4(x), "an allowed v4 address exists");
    ipv4_is_non_global(Ipv4Addr::from(x));
}

// complete: all 2^128 addresses; the v4 callee is used through its contract only
#[kani::proof_for_contract(ipv6_is_non_global)]
#[kani::stub_verified(ipv4_is_non_global)]
fn c27_v6_contract() {
    let x: u128 = kani::any();
    kani::cover!(spec_v6(x), "a blocked v6 address exists");
    kani::cover!(!spec_v6(x), "an allowed v6 address exists");
    ipv6_is_non_global(Ipv6Addr::from(x));
}

// complete: the dispatcher proved against both callee contracts only
#[kani::proof]
#[kani::stub_verified(ipv4_is_non_global)]
#[kani::stub_verified(ipv6_is_non_global)]
fn c27_ip_dispatch_uses_contracts() {
    if kani::any() {
        let x: u32 = kani::any();
        assert!(ip_is_non_global(IpAddr::V4(Ipv4Addr::from(x))) == spec_v4(x));
    } else {
        let x: u128 = kani::any();
        assert!(ip_is_non_global(IpAddr::V6(Ipv6Addr::from(x))) == spec_v6(x));
    }
}

// ---------------------------------------------------------------- C26: enforcement
static mut ALLOW: bool = false;
fn stub_is_uri_allowed(_patterns: &[HostPattern], _uri: &Uri) -> bool {
    unsafe { ALLOW }
}
fn stub_sanitize(_v: &str) -> String {
    String::new()
}
struct Count {
    calls: AtomicUsize,
}
impl SyncHttpResolver for Count {
    fn http_resolve(&self, _request: Request<Vec<u8>>) -> Result<Response<Box<dyn Read>>, HttpResolverError> {
        self.calls.fetch_add(1, Ordering::SeqCst);
        Err(HttpResolverError::SyncHttpResolverNotImplemented)
    }
}

// complete: the inner resolver is called exactly once iff (no list or the URI is allowed), otherwise never and the
// error is UriDisallowed.  is_uri_allowed is an arbitrary Boolean here (its own contract is the native part).
#[kani::proof]
#[kani::stub(is_uri_allowed, stub_is_uri_allowed)]
#[kani::stub(crate::http::sanitize_for_log, stub_sanitize)]
#[kani::unwind(3)]
fn c26_allow_list_enforced() {
    let allow: bool = kani::any();
    let has_list: bool = kani::any();
    unsafe {
        ALLOW = allow;
    }
    let mut r = RestrictedResolver::new(Count { calls: AtomicUsize::new(0) });
    if has_list {
        r.set_allowed_hosts(Some(Vec::new()));
    }
    let res = r.http_resolve(Request::new(Vec::new()));
    let calls = r.inner.calls.load(Ordering::SeqCst);
    kani::cover!(has_list && !allow, "a rejected request exists");
    kani::cover!(has_list && allow, "an allowed request exists");
    if !has_list || allow {
        assert!(calls == 1, "inner resolver called exactly once for a permitted request");
        assert!(matches!(res, Err(HttpResolverError::SyncHttpResolverNotImplemented)), "inner result returned unchanged");
    } else {
        assert!(calls == 0, "inner resolver never called for a disallowed request");
        assert!(matches!(res, Err(HttpResolverError::UriDisallowed { .. })), "disallowed request reports UriDisallowed");
    }
    std::mem::forget(res);
}

#[allow(dead_code)]
fn unused() -> (AtomicBool,) {
    (AtomicBool::new(false),)
}
