// unit restricted: harnesses for sdk/src/http/restricted.rs (included by the cfg(kani) hook at the end of that file)
// C27 (address classification, host-string kernels) and C26 (allow-list enforcement, pattern matching).
#[allow(unused_imports)]
use super::*;
use std::sync::atomic::{AtomicBool, AtomicUsize, Ordering};

// ---------------------------------------------------------------- C27: specification taken from the statement
// IPv4 ranges that must never be reached: 0/8, 10/8, 127/8, 169.254/16, 172.16/12, 192.168/16, 192.0.2/24,
// 198.51.100/24, 203.0.113/24, 224/4 (multicast), 255.255.255.255, 100.64/10
pub(super) fn spec_v4(x: u32) -> bool {
    let a = (x >> 24) as u8;
    let b = ((x >> 16) & 0xff) as u8;
    let c = ((x >> 8) & 0xff) as u8;
    a == 0
        || a == 127
        || a == 10
        || (a == 172 && (b & 0xf0) == 16)
        || (a == 192 && b == 168)
        || (a == 169 && b == 254)
        || x == 0xffff_ffff
        || (a == 192 && b == 0 && c == 2)
        || (a == 198 && b == 51 && c == 100)
        || (a == 203 && b == 0 && c == 113)
        || (a & 0xf0) == 224
        || (a == 100 && (b & 0xc0) == 64)
}

// IPv6: ::, ::1, ff00::/8, fc00::/7, fe80::/10, and ::ffff:a.b.c.d classified by the IPv4 rule
pub(super) fn spec_v6(x: u128) -> bool {
    let seg0 = (x >> 112) as u16;
    let mapped = (x >> 32) == 0xffff;
    if mapped {
        spec_v4(x as u32)
    } else {
        x == 0 || x == 1 || (seg0 & 0xff00) == 0xff00 || (seg0 & 0xfe00) == 0xfc00 || (seg0 & 0xffc0) == 0xfe80
    }
}

// complete: loop-free, all 2^32 addresses, checked against the in-place contract
#[kani::proof_for_contract(ipv4_is_non_global)]
fn c27_v4_contract() {
    let x: u32 = kani::any();
    kani::cover!(spec_v4(x), "a blocked v4 address exists");
    kani::cover!(!spec_v4(x), "an allowed v4 address exists");
    ipv4_is_non_global(Ipv4Addr::from(x));
}

// complete: all 2^128 addresses; the v4 callee is used through its contract only
#[kani::proof_for_contract(ipv6_is_non_global)]
#[kani::stub_verified(ipv4_is_non_global)]
fn c27_v6_contract() {
    let x: u128 = kani::any();
    kani::cover!(spec_v6(x), "a blocked v6 address exists");
    kani::cover!(!spec_v6(x), "an allowed v6 address exists");
    ipv6_is_non_global(Ipv6Addr::from(x));
}

// complete: the dispatcher proved against both callee contracts only
#[kani::proof]
#[kani::stub_verified(ipv4_is_non_global)]
#[kani::stub_verified(ipv6_is_non_global)]
fn c27_ip_dispatch_uses_contracts() {
    if kani::any() {
        let x: u32 = kani::any();
        assert!(ip_is_non_global(IpAddr::V4(Ipv4Addr::from(x))) == spec_v4(x));
    } else {
        let x: u128 = kani::any();
        assert!(ip_is_non_global(IpAddr::V6(Ipv6Addr::from(x))) == spec_v6(x));
    }
}

// ---------------------------------------------------------------- C26: enforcement
static mut ALLOW: bool = false;
fn stub_is_uri_allowed(_patterns: &[HostPattern], _uri: &Uri) -> bool {
    unsafe { ALLOW }
}
fn stub_sanitize(_v: &str) -> String {
    String::new()
}
struct Count {
    calls: AtomicUsize,
}
impl SyncHttpResolver for Count {
    fn http_resolve(&self, _request: Request<Vec<u8>>) -> Result<Response<Box<dyn Read>>, HttpResolverError> {
        self.calls.fetch_add(1, Ordering::SeqCst);
        Err(HttpResolverError::SyncHttpResolverNotImplemented)
    }
}

// complete: the inner resolver is called exactly once iff (no list or the URI is allowed), otherwise never and the
// error is UriDisallowed.  is_uri_allowed is an arbitrary Boolean here (its own contract is the native part).
#[kani::proof]
#[kani::stub(is_uri_allowed, stub_is_uri_allowed)]
#[kani::stub(crate::http::sanitize_for_log, stub_sanitize)]
#[kani::unwind(3)]
fn c26_allow_list_enforced() {
    let allow: bool = kani::any();
    let has_list: bool = kani::any();
    unsafe {
        ALLOW = allow;
    }
    let mut r = RestrictedResolver::new(Count { calls: AtomicUsize::new(0) });
    if has_list {
        r.set_allowed_hosts(Some(Vec::new()));
    }
    let res = r.http_resolve(Request::new(Vec::new()));
    let calls = r.inner.calls.load(Ordering::SeqCst);
    kani::cover!(has_list && !allow, "a rejected request exists");
    kani::cover!(has_list && allow, "an allowed request exists");
    if !has_list || allow {
        assert!(calls == 1, "inner resolver called exactly once for a permitted request");
        assert!(matches!(res, Err(HttpResolverError::SyncHttpResolverNotImplemented)), "inner result returned unchanged");
    } else {
        assert!(calls == 0, "inner resolver never called for a disallowed request");
        assert!(matches!(res, Err(HttpResolverError::UriDisallowed { .. })), "disallowed request reports UriDisallowed");
    }
    std::mem::forget(res);
}

#[allow(dead_code)]
fn unused() -> (AtomicBool,) {
    (AtomicBool::new(false),)
}

// ================================================================ Engine B (native, bounded-exhaustive) parts
#[cfg(test)]
mod native {
    use super::*;
    use std::sync::Mutex;

    fn strings_over(alphabet: &[char], max_len: usize) -> Vec<String> {
        let mut out = vec![String::new()];
        let mut frontier = vec![String::new()];
        for _ in 0..max_len {
            let mut next = Vec::new();
            for s in &frontier {
                for c in alphabet {
                    let mut t = s.clone();
                    t.push(*c);
                    next.push(t);
                }
            }
            out.extend(next.iter().cloned());
            frontier = next;
        }
        out
    }

    // ---- C26: the documented matching rules, executable (exact host or `*.` wildcard with a real sub-domain label,
    // case-insensitive, optional scheme must match, port must match)
    fn reference_match(pattern: &str, scheme: &str, host: &str, port: Option<&str>) -> bool {
        let p = pattern.to_ascii_lowercase();
        let (ps, rest) = if let Some(r) = p.strip_prefix("https://") {
            (Some("https"), r)
        } else if let Some(r) = p.strip_prefix("http://") {
            (Some("http"), r)
        } else {
            (None, p.as_str())
        };
        let (ph, pp) = match rest.rfind(':') {
            Some(i) => (&rest[..i], Some(&rest[i + 1..])),
            None => (rest, None),
        };
        let scheme_ok = ps.is_none() || ps == Some(scheme);
        if ph.is_empty() {
            return ps.is_some() && scheme_ok;
        }
        let h = host.to_ascii_lowercase();
        let host_ok = if let Some(suffix) = ph.strip_prefix("*.") {
            // some non-empty label(s), a dot, then exactly the suffix
            h.len() > suffix.len() + 1 && h.ends_with(suffix) && h.as_bytes()[h.len() - suffix.len() - 1] == b'.'
        } else {
            h == ph
        };
        host_ok && pp == port && scheme_ok
    }

    #[test]
    fn c26_host_pattern_matching_small_domain() {
        let thorough = std::env::var("VERIF_B_TIER").map(|t| t == "thorough").unwrap_or(false);
        let hosts: Vec<String> = strings_over(&['a', 'b', '.', 'A'], 4).into_iter().filter(|h| !h.is_empty() && !h.starts_with('.') && !h.contains("..")).collect();
        let mut pats: Vec<String> = Vec::new();
        for core in strings_over(&['a', 'b', '.', '*', 'A'], if thorough { 4 } else { 3 }) {
            for port in ["", ":1", ":80"] {
                for scheme in ["", "http://", "https://", "HTTPS://"] {
                    pats.push(format!("{scheme}{core}{port}"));
                }
            }
        }
        let mut evals = 0usize;
        let mut nontrivial = 0usize;
        let mut counts: std::collections::BTreeMap<String, usize> = std::collections::BTreeMap::new();
        let mut uris: Vec<(String, String, Option<String>, Uri)> = Vec::new();
        for h in &hosts {
            for scheme in ["http", "https"] {
                for port in [None, Some("1"), Some("80")] {
                    let s = match port {
                        Some(p) => format!("{scheme}://{h}:{p}/x"),
                        None => format!("{scheme}://{h}/x"),
                    };
                    if let Ok(u) = s.parse::<Uri>() {
                        if u.host() == Some(h.as_str()) {
                            uris.push((scheme.to_string(), h.clone(), port.map(|p| p.to_string()), u));
                        }
                    }
                }
            }
        }
        for p in &pats {
            let hp = HostPattern::new(p);
            for (scheme, host, port, uri) in &uris {
                evals += 1;
                let want = reference_match(p, scheme, host, port.as_deref());
                if want {
                    nontrivial += 1;
                }
                let got = hp.matches(uri);
                // is_uri_allowed == exists pattern. matches
                let got_list = is_uri_allowed(&[HostPattern::new("zz.invalid"), hp.clone()], uri);
                if got != want || got_list != want {
                    let k = if got && !want { "host_pattern.matches_too_much" } else { "host_pattern.matches_too_little" };
                    let c = counts.entry(k.to_string()).or_insert(0);
                    *c += 1;
                    if *c <= 3 {
                        println!("VERIF-B-VIOLATION key={k} input=pattern={p:?} uri={uri}");
                    }
                }
            }
        }
        println!("VERIF-B-SAMPLE pattern \"*.a.b\" vs http://x.a.b/ -> {} ; vs http://a.b/ -> {} ; pattern \"a:80\" vs http://a/ -> {}", HostPattern::new("*.a.b").matches(&"http://x.a.b/".parse::<Uri>().unwrap()), HostPattern::new("*.a.b").matches(&"http://a.b/".parse::<Uri>().unwrap()), HostPattern::new("a:80").matches(&"http://a/".parse::<Uri>().unwrap()));
        println!("VERIF-B-SAMPLE violation classes this run: {:?}", counts);
        println!("VERIF-B unit=restricted test=c26_host_pattern_matching_small_domain evaluations={evals} nontrivial={nontrivial} exhaustive=true domain={} patterns (all strings <= {} over {{a b . * A}} x ports {{none,1,80}} x schemes {{none,http,https,HTTPS}}) x {} URIs (hosts <= 4 over {{a b . A}} x 2 schemes x 3 ports)", pats.len(), if thorough { 4 } else { 3 }, uris.len());
    }

    // ---- C27: host-string kernels
    #[test]
    fn c27_host_string_kernels() {
        let thorough = std::env::var("VERIF_B_TIER").map(|t| t == "thorough").unwrap_or(false);
        let mut evals = 0usize;
        let mut nontrivial = 0usize;
        let mut counts: std::collections::BTreeMap<String, usize> = std::collections::BTreeMap::new();
        let mut bad = |k: &str, input: String, counts: &mut std::collections::BTreeMap<String, usize>| {
            let c = counts.entry(k.to_string()).or_insert(0);
            *c += 1;
            if *c <= 3 {
                println!("VERIF-B-VIOLATION key={k} input={input}");
            }
        };
        // looks_like_obfuscated_ip == non-empty and (only digits and dots, or some dot-separated label starts with 0x/0X)
        for s in strings_over(&['0', '1', '7', 'x', 'X', '.', 'a', '-'], if thorough { 6 } else { 5 }) {
            evals += 1;
            let all_num = !s.is_empty() && s.chars().all(|c| c.is_ascii_digit() || c == '.');
            let hex = s.split('.').any(|l| l.len() >= 2 && (l.as_bytes()[0] == b'0') && (l.as_bytes()[1] == b'x' || l.as_bytes()[1] == b'X'));
            let want = !s.is_empty() && (all_num || hex);
            if want {
                nontrivial += 1;
            }
            if looks_like_obfuscated_ip(&s) != want {
                bad("host.obfuscated_ip_spec", format!("{s:?}"), &mut counts);
            }
        }
        // normalize_host: strips one pair of brackets, one trailing dot, lower-cases
        for s in strings_over(&['a', 'B', '.', '[', ']', ':'], 5) {
            evals += 1;
            let mut w: &str = &s;
            if w.starts_with('[') && w.ends_with(']') && w.len() >= 2 {
                w = &w[1..w.len() - 1];
            }
            if w.ends_with('.') {
                w = &w[..w.len() - 1];
            }
            if normalize_host(&s) != w.to_ascii_lowercase() {
                bad("host.normalize_spec", format!("{s:?}"), &mut counts);
            }
        }
        // host_is_non_global on URIs: range boundaries from the statement, obfuscated forms, loopback names
        let blocked = [
            "0.0.0.0", "0.255.255.255", "10.0.0.0", "10.255.255.255", "127.0.0.1", "127.255.255.255", "169.254.0.0", "169.254.169.254", "169.254.255.255",
            "172.16.0.0", "172.31.255.255", "192.168.0.0", "192.168.255.255", "192.0.2.0", "192.0.2.255", "198.51.100.0", "198.51.100.255", "203.0.113.0", "203.0.113.255",
            "224.0.0.0", "239.255.255.255", "255.255.255.255", "100.64.0.0", "100.127.255.255",
            "[::]", "[::1]", "[ff00::]", "[ff02::1]", "[fc00::]", "[fdff::1]", "[fe80::]", "[febf::1]", "[::ffff:10.0.0.1]", "[::ffff:127.0.0.1]", "[::ffff:169.254.169.254]", "[::ffff:192.168.1.1]",
            "2130706433", "127.1", "0x7f.0.0.1", "0177.0.0.1", "127.0x1", "0X7F.0.0.1", "1.2.3", "10.0.0.1.", "localhost", "LOCALHOST", "localhost.", "foo.localhost", "a.b.LocalHost.",
        ];
        let allowed = [
            "1.0.0.0", "9.255.255.255", "11.0.0.0", "126.255.255.255", "128.0.0.0", "169.253.255.255", "169.255.0.0", "172.15.255.255", "172.32.0.0", "192.167.255.255", "192.169.0.0",
            "192.0.1.255", "192.0.3.0", "198.51.99.255", "198.51.101.0", "203.0.112.255", "203.0.114.0", "223.255.255.255", "100.63.255.255", "100.128.0.0", "8.8.8.8",
            "[2001:4860:4860::8888]", "[fec0::1]", "[fbff::1]", "[::2]", "[::ffff:8.8.8.8]", "example.com", "localhost.example.com", "notlocalhost", "x0x1.example", "a-0x1.example",
        ];
        for (list, want) in [(&blocked[..], true), (&allowed[..], false)] {
            for h in list {
                for suffix in ["", ":8080"] {
                    let s = format!("http://{h}{suffix}/p");
                    let Ok(u) = s.parse::<Uri>() else { continue };
                    evals += 1;
                    nontrivial += 1;
                    if host_is_non_global(&u) != want {
                        bad(if want { "host.internal_target_not_blocked" } else { "host.public_target_blocked" }, s.clone(), &mut counts);
                    }
                }
            }
        }
        println!("VERIF-B-SAMPLE host_is_non_global(http://[::ffff:169.254.169.254]/) = {}", host_is_non_global(&"http://[::ffff:169.254.169.254]/".parse::<Uri>().unwrap()));
        println!("VERIF-B-SAMPLE violation classes this run: {:?}", counts);
        println!("VERIF-B unit=restricted test=c27_host_string_kernels evaluations={evals} nontrivial={nontrivial} exhaustive=true domain=looks_like_obfuscated_ip: every string <= {} over {{0 1 7 x X . a -}}; normalize_host: every string <= 5 over {{a B . [ ] :}}; host_is_non_global: {} boundary / obfuscated / name hosts with and without port", if thorough { 6 } else { 5 }, blocked.len() + allowed.len());
    }

    // ---- C27: credentials are not forwarded on a redirect
    #[test]
    fn c27_build_redirected_request_drops_credentials() {
        let names = ["host", "authorization", "cookie", "proxy-authorization", "accept", "x-custom", "Authorization", "COOKIE"];
        let mut evals = 0usize;
        let mut viol = 0usize;
        for mask in 0u32..(1 << names.len()) {
            for method in [http::Method::GET, http::Method::POST] {
                let mut headers = http::HeaderMap::new();
                for (i, n) in names.iter().enumerate() {
                    if mask & (1 << i) != 0 {
                        headers.append(http::header::HeaderName::from_bytes(n.to_ascii_lowercase().as_bytes()).unwrap(), http::HeaderValue::from_str(&format!("v{i}")).unwrap());
                    }
                }
                let target: Uri = "https://example.com/next".parse().unwrap();
                evals += 1;
                let r = build_redirected_request(method.clone(), headers.clone(), vec![1, 2, 3], target.clone());
                let ok = match &r {
                    Ok(req) => {
                        req.uri() == &target
                            && req.method() == method
                            && req.body() == &vec![1u8, 2, 3]
                            && !req.headers().contains_key("host")
                            && !req.headers().contains_key("authorization")
                            && !req.headers().contains_key("cookie")
                            && !req.headers().contains_key("proxy-authorization")
                            && headers.iter().filter(|(n, _)| !["host", "authorization", "cookie", "proxy-authorization"].contains(&n.as_str())).all(|(n, v)| req.headers().get_all(n).iter().any(|x| x == v))
                    }
                    Err(_) => false,
                };
                if !ok {
                    viol += 1;
                    if viol <= 3 {
                        println!("VERIF-B-VIOLATION key=redirect.credentials_or_frame input=header mask {mask:#x} method {method}");
                    }
                }
            }
        }
        println!("VERIF-B unit=restricted test=c27_build_redirected_request_drops_credentials evaluations={evals} nontrivial={} exhaustive=true domain=every subset of 8 header names (4 credential-bearing incl. case variants) x {{GET,POST}}; violations={viol}", evals - 2);
    }

    // ---- C26 + C27: the stacked resolvers RedirectResolver<RestrictedResolver<transport>> with a scripted transport
    struct Scripted {
        // host -> Some(location) for a redirect, None for 200
        script: Vec<(String, Option<String>)>,
        seen: Mutex<Vec<(String, bool)>>, // (uri, carried credentials)
    }
    impl SyncHttpResolver for Scripted {
        fn http_resolve(&self, request: Request<Vec<u8>>) -> Result<Response<Box<dyn Read>>, HttpResolverError> {
            let creds = request.headers().contains_key("authorization") || request.headers().contains_key("cookie");
            self.seen.lock().unwrap().push((request.uri().to_string(), creds));
            let host = request.uri().host().unwrap_or("").to_string();
            let body: Box<dyn Read> = Box::new(std::io::empty());
            for (h, loc) in &self.script {
                if *h == host {
                    if let Some(l) = loc {
                        return Ok(Response::builder().status(302).header(http::header::LOCATION, l.as_str()).body(body).unwrap());
                    }
                }
            }
            Ok(Response::builder().status(200).body(body).unwrap())
        }
    }

    #[test]
    fn c26_c27_redirect_chains_through_stacked_resolvers() {
        // hosts: a.ok and b.ok are on the allow-list, evil.no is public but not allowed, the rest are internal
        let targets = ["http://a.ok/", "http://b.ok/", "http://evil.no/", "http://127.0.0.1/", "http://169.254.169.254/latest", "http://[::1]/", "http://localhost/", "http://2130706433/", "/relative", "//127.0.0.1/x", "//169.254.169.254/latest", "/\\192.168.1.1/", "//b.ok/y", "//[::ffff:10.0.0.1]/"];
        let allowed = |u: &str| u.starts_with("http://a.ok/") || u.starts_with("http://b.ok/");
        let mut evals = 0usize;
        let mut nontrivial = 0usize;
        let mut counts: std::collections::BTreeMap<String, usize> = std::collections::BTreeMap::new();
        for allow_redirects in [true, false] {
            for t1 in 0..=targets.len() {
                for t2 in 0..=targets.len() {
                    // a.ok redirects to t1 (or answers 200), b.ok redirects to t2 (or 200); everything else answers 200
                    let script = vec![("a.ok".to_string(), targets.get(t1).map(|s| s.to_string())), ("b.ok".to_string(), targets.get(t2).map(|s| s.to_string()))];
                  for with_list in [true, false] {
                    let transport = Scripted { script: script.clone(), seen: Mutex::new(Vec::new()) };
                    // with_list == false: no allow-list configured, only the internal-address policy protects the transport
                    let restricted = if with_list { RestrictedResolver::with_allowed_hosts(transport, vec![HostPattern::new("a.ok"), HostPattern::new("b.ok")]) } else { RestrictedResolver::new(transport) };
                    let r = RedirectResolver::new(restricted, allow_redirects);
                    let req = Request::get("http://a.ok/start").header("authorization", "secret").header("cookie", "c=1").body(Vec::new()).unwrap();
                    let _ = r.http_resolve(req);
                    evals += 1;
                    if t1 < targets.len() {
                        nontrivial += 1;
                    }
                    let seen = r.inner.inner.seen.lock().unwrap().clone();
                    let mut key: Option<&str> = None;
                    if seen.len() > MAX_REDIRECTS + 1 {
                        key = Some("redirect.too_many_requests");
                    }
                    for (i, (u, creds)) in seen.iter().enumerate() {
                        if with_list && !allowed(u) {
                            key = Some("redirect.request_outside_allow_list_reached_transport");
                        }
                        if let Ok(pu) = u.parse::<Uri>() {
                            if host_is_non_global(&pu) {
                                key = Some("redirect.internal_address_reached_transport");
                            }
                        }
                        if i > 0 && *creds {
                            key = Some("redirect.credentials_forwarded");
                        }
                        if i > 0 && !allow_redirects {
                            key = Some("redirect.followed_although_disabled");
                        }
                    }
                    if let Some(k) = key {
                        let c = counts.entry(k.to_string()).or_insert(0);
                        *c += 1;
                        if *c <= 3 {
                            println!("VERIF-B-VIOLATION key={k} input=allow_redirects={allow_redirects} allow_list={with_list} a.ok->{:?} b.ok->{:?} seen={seen:?}", targets.get(t1), targets.get(t2));
                        }
                    }
                  }
                }
            }
        }
        println!("VERIF-B-SAMPLE violation classes this run: {:?}", counts);
        println!("VERIF-B unit=restricted test=c26_c27_redirect_chains_through_stacked_resolvers evaluations={evals} nontrivial={nontrivial} exhaustive=true domain=allow_redirects x (a.ok -> one of 14 targets or 200) x (b.ok -> one of 14 targets or 200), request with credentials, allow-list {{a.ok, b.ok}} or none");
    }
}
