// unit store: sdk/src/store.rs (included by the cfg(kani) hook at the end of that file)
// C19 (Engine B) for the traversal that Verus cannot take (HashMap/HashSet entry API, log_item!, 100 lines):
// Store::get_claim_referenced_manifests over EVERY ingredient graph on up to 4 manifests:
//   terminates; a cycle reachable from the active manifest => Err (CyclicIngredients, logged as ingredient.malformed);
//   no reachable cycle and no dangling reference => Ok and every reachable manifest is recorded;
//   a chain deeper than MAX_INGREDIENT_DEPTH is refused.
#[allow(unused_imports)]
use super::*;

#[cfg(test)]
mod c19 {
    use super::*;
    use crate::{hashed_uri::HashedUri, jumbf::labels::to_manifest_uri, status_tracker::ErrorBehavior, ClaimGeneratorInfo};

    // adjacency: edges[i] = list of targets (node indices; an index >= n is a dangling reference)
    fn graph_store(n: usize, edges: &[Vec<usize>]) -> (Store, Vec<String>) {
        let mut claims: Vec<Claim> = (0..n)
            .map(|i| {
                let mut c = Claim::new("verif_graph", Some(&format!("node{i}")), 2);
                c.add_claim_generator_info(ClaimGeneratorInfo::new("test"));
                c
            })
            .collect();
        let mut labels: Vec<String> = claims.iter().map(|c| c.label().to_owned()).collect();
        labels.push("urn:c2pa:00000000-0000-0000-0000-00000000dead".to_string()); // the dangling target
        for (i, targets) in edges.iter().enumerate() {
            for t in targets {
                let uri = HashedUri::new(to_manifest_uri(&labels[(*t).min(n)]), Some(claims[i].alg().to_owned()), &[0u8; 32]);
                let ingredient = Ingredient::new_v2(format!("n{t}"), "image/jpeg").set_c2pa_manifest_from_hashed_uri(Some(uri));
                let _ = claims[i].add_assertion(&ingredient);
            }
        }
        let mut store = Store::new();
        for (label, claim) in labels.iter().zip(claims) {
            store.insert_restored_claim(label.clone(), claim);
        }
        (store, labels)
    }

    // reference: reachable set and whether a cycle / a dangling edge is reachable from `active`
    fn analyse(n: usize, edges: &[Vec<usize>], active: usize) -> (Vec<bool>, bool, bool) {
        let mut reach = vec![false; n];
        let mut stack = vec![active];
        let mut dangling = false;
        while let Some(v) = stack.pop() {
            if reach[v] {
                continue;
            }
            reach[v] = true;
            for &t in &edges[v] {
                if t >= n {
                    dangling = true;
                } else if !reach[t] {
                    stack.push(t);
                }
            }
        }
        // cycle among reachable nodes: colour DFS
        fn dfs(v: usize, n: usize, edges: &[Vec<usize>], col: &mut Vec<u8>) -> bool {
            col[v] = 1;
            for &t in &edges[v] {
                if t >= n {
                    continue;
                }
                if col[t] == 1 || (col[t] == 0 && dfs(t, n, edges, col)) {
                    return true;
                }
            }
            col[v] = 2;
            false
        }
        let mut col = vec![0u8; n];
        let cyc = dfs(active, n, edges, &mut col);
        (reach, cyc, dangling)
    }

    #[test]
    fn c19_referenced_manifest_walk_all_small_graphs() {
        let thorough = std::env::var("VERIF_B_TIER").map(|t| t == "thorough").unwrap_or(false);
        let mut evals = 0usize;
        let mut nontrivial = 0usize;
        let mut counts: std::collections::BTreeMap<String, usize> = std::collections::BTreeMap::new();
        let mut bad = |k: &str, input: String, counts: &mut std::collections::BTreeMap<String, usize>| {
            let c = counts.entry(k.to_string()).or_insert(0);
            *c += 1;
            if *c <= 3 {
                println!("VERIF-B-VIOLATION key={k} input={input}");
            }
        };
        for n in 1..=4usize {
            // every subset of the n*n possible edges (n = 4: 65536 graphs; quick tier takes every 7th), the last node is active;
            // plus, for n <= 3, one dangling reference from each node
            let total: u64 = 1u64 << (n * n);
            let step: u64 = if n == 4 && !thorough { 7 } else { 1 };
            let mut mask = 0u64;
            while mask < total {
                for dangling_from in std::iter::once(None).chain(if n <= 3 { (0..n).map(Some).collect::<Vec<_>>() } else { vec![] }) {
                    let mut edges: Vec<Vec<usize>> = vec![Vec::new(); n];
                    for i in 0..n {
                        for j in 0..n {
                            if mask & (1 << (i * n + j)) != 0 {
                                edges[i].push(j);
                            }
                        }
                    }
                    if let Some(d) = dangling_from {
                        edges[d].push(n);
                    }
                    let active = n - 1;
                    let (reach, cyc, dangling) = analyse(n, &edges, active);
                    evals += 1;
                    if cyc || reach.iter().filter(|r| **r).count() > 1 {
                        nontrivial += 1;
                    }
                    let (store, labels) = graph_store(n, &edges);
                    let Some(active_claim) = store.get_claim(&labels[active]) else { continue };
                    let mut svi = StoreValidationInfo::default();
                    let mut log = StatusTracker::with_error_behavior(ErrorBehavior::StopOnFirstError);
                    let r = Store::get_claim_referenced_manifests(active_claim, &store, &mut svi, true, &mut log);
                    let desc = || format!("n={n} edges={edges:?} active={active}");
                    match (&r, cyc, dangling) {
                        (Ok(()), true, _) => bad("ingredient_graph.cycle_accepted", desc(), &mut counts),
                        (Err(Error::CyclicIngredients { .. }), true, _) => {
                            if !log.has_status(validation_status::ASSERTION_INGREDIENT_MALFORMED) {
                                bad("ingredient_graph.cycle_not_logged_as_malformed", desc(), &mut counts);
                            }
                        }
                        (Err(_), true, _) => {} // a dangling edge may be reported first
                        (Ok(()), false, false) => {
                            for v in 0..n {
                                if reach[v] != svi.manifest_map.contains_key(&labels[v]) {
                                    bad("ingredient_graph.reachable_set_differs", desc(), &mut counts);
                                    break;
                                }
                            }
                        }
                        (Ok(()), false, true) => bad("ingredient_graph.dangling_reference_accepted", desc(), &mut counts),
                        (Err(Error::CyclicIngredients { .. }), false, _) => bad("ingredient_graph.acyclic_graph_reported_cyclic", desc(), &mut counts),
                        (Err(_), false, true) => {}
                        (Err(e), false, false) => bad("ingredient_graph.well_formed_graph_rejected", format!("{} -> {e:?}", desc()), &mut counts),
                    }
                }
                mask += step;
            }
        }
        // an over-deep chain: MAX_INGREDIENT_DEPTH + 1 manifests in a line
        {
            let n = MAX_INGREDIENT_DEPTH + 1;
            let edges: Vec<Vec<usize>> = (0..n).map(|i| if i == 0 { vec![] } else { vec![i - 1] }).collect();
            let (store, labels) = graph_store(n, &edges);
            if let Some(active_claim) = store.get_claim(&labels[n - 1]) {
                let mut svi = StoreValidationInfo::default();
                let mut log = StatusTracker::with_error_behavior(ErrorBehavior::StopOnFirstError);
                evals += 1;
                nontrivial += 1;
                if Store::get_claim_referenced_manifests(active_claim, &store, &mut svi, true, &mut log).is_ok() {
                    bad("ingredient_graph.over_deep_chain_accepted", format!("chain of {n} manifests"), &mut counts);
                }
            }
        }
        println!("VERIF-B-SAMPLE n=3 edges=[[1],[0],[1]] active=2 -> cycle below the active manifest must be CyclicIngredients");
        println!("VERIF-B-SAMPLE violation classes this run: {:?}", counts);
        println!("VERIF-B unit=store test=c19_referenced_manifest_walk_all_small_graphs evaluations={evals} nontrivial={nontrivial} exhaustive={} domain=every directed ingredient graph on 1..=3 manifests (all edge subsets, optional dangling reference) and on 4 manifests ({}), last manifest active; one chain of MAX_INGREDIENT_DEPTH+1", thorough, if thorough { "all 65536" } else { "every 7th of 65536" });
    }

    // ---- C28 (Engine B): which manifests are selected for an OCSP request at ingredient time
    #[test]
    fn c28_ocsp_label_selection_all_settings() {
        use crate::settings::{builder::OcspFetchScope, Settings};
        let mut evals = 0usize;
        let mut nontrivial = 0usize;
        let mut viol = 0usize;
        for n in 1..=3usize {
            let edges: Vec<Vec<usize>> = (0..n).map(|i| if i == 0 { vec![] } else { vec![i - 1] }).collect();
            let (mut store, labels) = graph_store(n, &edges);
            for set_provenance in [false, true] {
                if set_provenance {
                    if let Some(c) = store.get_claim(&labels[n - 1]).cloned() {
                        store.set_provenance_path(&c);
                    }
                }
                for fetch in [None, Some(OcspFetchScope::All), Some(OcspFetchScope::Active)] {
                    for should_override in [None, Some(false), Some(true)] {
                        let mut s = Settings::default();
                        s.builder.certificate_status_fetch = fetch;
                        s.builder.certificate_status_should_override = should_override;
                        let got = store.get_manifest_labels_for_ocsp(&s);
                        evals += 1;
                        if fetch.is_some() && should_override.is_some() {
                            nontrivial += 1;
                        }
                        let ok = match (fetch, should_override) {
                            (None, _) | (_, None) => got.is_empty(),
                            (Some(OcspFetchScope::Active), _) => got.len() <= 1 && got.iter().all(|l| Some(l.clone()) == store.provenance_label()),
                            (Some(OcspFetchScope::All), _) => got.iter().all(|l| labels.contains(l)),
                        };
                        if !ok {
                            viol += 1;
                            if viol <= 3 {
                                println!("VERIF-B-VIOLATION key=ocsp_labels.selected_without_configuration input=claims={n} provenance_set={set_provenance} certificate_status_fetch={fetch:?} certificate_status_should_override={should_override:?} -> {got:?}");
                            }
                        }
                    }
                }
            }
        }
        println!("VERIF-B unit=store test=c28_ocsp_label_selection_all_settings evaluations={evals} nontrivial={nontrivial} exhaustive=true domain=stores with 1..=3 manifests (with / without an active manifest) x certificate_status_fetch in {{None, All, Active}} x certificate_status_should_override in {{None, false, true}}; violations={viol}");
    }
}
