// unit store: sdk/src/store.rs (included by the cfg(kani) hook at the end of that file)
// C19 (Engine B) for the traversal that Verus cannot take (HashMap/HashSet entry API, log_item!, 100 lines):
// Store::get_claim_referenced_manifests over EVERY ingredient graph on up to 4 manifests:
//   terminates; a cycle reachable from the active manifest => Err (CyclicIngredients, logged as ingredient.malformed);
//   no reachable cycle and no dangling reference => Ok and every reachable manifest is recorded;
//   a chain deeper than MAX_INGREDIENT_DEPTH is refused.
#[allow(unused_imports)]
use super::*;

#[cfg(test)]
mod c19 {
    use super::*;
    use crate::{hashed_uri::HashedUri, jumbf::labels::to_manifest_uri, status_tracker::ErrorBehavior, ClaimGeneratorInfo};

    // adjacency: edges[i] = list of targets (node indices; an index >= n is a dangling reference)
    fn graph_store(n: usize, edges: &[Vec<usize>]) -> (Store, Vec<String>) {
        let mut claims: Vec<Claim> = (0..n)
            .map(|i| {
                let mut c = Claim::new("verif_graph", Some(&format!("node{i}")), 2);
                c.add_claim_generator_info(ClaimGeneratorInfo::new("test"));
                c
            })
            .collect();
        let mut labels: Vec<String> = claims.iter().map(|c| c.label().to_owned()).collect();
        labels.push("urn:c2pa:00000000-0000-0000-0000-00000000dead".to_string()); // the dangling target
        for (i, targets) in edges.iter().enumerate() {
            for t in targets {
                let uri = HashedUri::new(to_manifest_uri(&labels[(*t).min(n)]), Some(claims[i].alg().to_owned()), &[0u8; 32]);
                let ingredient = Ingredient::new_v2(format!("n{t}"), "image/jpeg").set_c2pa_manifest_from_hashed_uri(Some(uri));
                let _ = claims[i].add_assertion(&ingredient);
            }
        }
        let mut store = Store::new();
        for (label, claim) in labels.iter().zip(claims) {
            store.insert_restored_claim(label.clone(), claim);
        }
        (store, labels)
    }

    // reference: reachable set and whether a cycle / a dangling edge is reachable from `active`
    fn analyse(n: usize, edges: &[Vec<usize>], active: usize) -> (Vec<bool>, bool, bool) {
        let mut reach = vec![false; n];
        let mut stack = vec![active];
        let mut dangling = false;
        while let Some(v) = stack.pop() {
            if reach[v] {
                continue;
            }
            reach[v] = true;
            for &t in &edges[v] {
                if t >= n {
                    dangling = true;
                } else if !reach[t] {
                    stack.push(t);
                }
            }
        }
        // cycle among reachable nodes: colour DFS
        fn dfs(v: usize, n: usize, edges: &[Vec<usize>], col: &mut Vec<u8>) -> bool {
            col[v] = 1;
            for &t in &edges[v] {
                if t >= n {
                    continue;
                }
                if col[t] == 1 || (col[t] == 0 && dfs(t, n, edges, col)) {
                    return true;
                }
            }
            col[v] = 2;
            false
        }
        let mut col = vec![0u8; n];
        let cyc = dfs(active, n, edges, &mut col);
        (reach, cyc, dangling)
    }

    #[test]
    fn c19_referenced_manifest_walk_all_small_graphs() {
        let thorough = std::env::var("VERIF_B_TIER").map(|t| t == "thorough").unwrap_or(false);
        let mut evals = 0usize;
        let mut nontrivial = 0usize;
        let mut counts: std::collections::BTreeMap<String, usize> = std::collections::BTreeMap::new();
        let mut bad = |k: &str, input: String, counts: &mut std::collections::BTreeMap<String, usize>| {
            let c = counts.entry(k.to_string()).or_insert(0);
            *c += 1;
            if *c <= 3 {
                println!("VERIF-B-VIOLATION key={k} input={input}");
            }
        };
        for n in 1..=4usize {
            // every subset of the n*n possible edges (n = 4: 65536 graphs; quick tier takes every 7th), the last node is active;
            // plus, for n <= 3, one dangling reference from each node
            let total: u64 = 1u64 << (n * n);
            let step: u64 = if n == 4 && !thorough { 7 } else { 1 };
            let mut mask = 0u64;
            while mask < total {
                for dangling_from in std::iter::once(None).chain(if n <= 3 { (0..n).map(Some).collect::<Vec<_>>() } else { vec![] }) {
                    let mut edges: Vec<Vec<usize>> = vec![Vec::new(); n];
                    for i in 0..n {
                        for j in 0..n {
                            if mask & (1 << (i * n + j)) != 0 {
                                edges[i].push(j);
                            }
                        }
                    }
                    if let Some(d) = dangling_from {
                        edges[d].push(n);
                    }
                    let active = n - 1;
                    let (reach, cyc, dangling) = analyse(n, &edges, active);
                    evals += 1;
                    if cyc || reach.iter().filter(|r| **r).count() > 1 {
                        nontrivial += 1;
                    }
                    let (store, labels) = graph_store(n, &edges);
                    let Some(active_claim) = store.get_claim(&labels[active]) else { continue };
                    let mut svi = StoreValidationInfo::default();
                    let mut log = StatusTracker::with_error_behavior(ErrorBehavior::StopOnFirstError);
                    let r = Store::get_claim_referenced_manifests(active_claim, &store, &mut svi, true, &mut log);
                    let desc = || format!("n={n} edges={edges:?} active={active}");
                    match (&r, cyc, dangling) {
                        (Ok(()), true, _) => bad("ingredient_graph.cycle_accepted", desc(), &mut counts),
                        (Err(Error::CyclicIngredients { .. }), true, _) => {
                            if !log.has_status(validation_status::ASSERTION_INGREDIENT_MALFORMED) {
                                bad("ingredient_graph.cycle_not_logged_as_malformed", desc(), &mut counts);
                            }
                        }
                        (Err(_), true, _) => {} // a dangling edge may be reported first
                        (Ok(()), false, false) => {
                            for v in 0..n {
                                if reach[v] != svi.manifest_map.contains_key(&labels[v]) {
                                    bad("ingredient_graph.reachable_set_differs", desc(), &mut counts);
                                    break;
                                }
                            }
                        }
                        (Ok(()), false, true) => bad("ingredient_graph.dangling_reference_accepted", desc(), &mut counts),
                        (Err(Error::CyclicIngredients { .. }), false, _) => bad("ingredient_graph.acyclic_graph_reported_cyclic", desc(), &mut counts),
                        (Err(_), false, true) => {}
                        (Err(e), false, false) => bad("ingredient_graph.well_formed_graph_rejected", format!("{} -> {e:?}", desc()), &mut counts),
                    }
                }
                mask += step;
            }
        }
        // an over-deep chain: MAX_INGREDIENT_DEPTH + 1 manifests in a line
        {
            let n = MAX_INGREDIENT_DEPTH + 1;
            let edges: Vec<Vec<usize>> = (0..n).map(|i| if i == 0 { vec![] } else { vec![i - 1] }).collect();
            let (store, labels) = graph_store(n, &edges);
            if let Some(active_claim) = store.get_claim(&labels[n - 1]) {
                let mut svi = StoreValidationInfo::default();
                let mut log = StatusTracker::with_error_behavior(ErrorBehavior::StopOnFirstError);
                evals += 1;
                nontrivial += 1;
                if Store::get_claim_referenced_manifests(active_claim, &store, &mut svi, true, &mut log).is_ok() {
                    bad("ingredient_graph.over_deep_chain_accepted", format!("chain of {n} manifests"), &mut counts);
                }
            }
        }
        println!("VERIF-B-SAMPLE n=3 edges=[[1],[0],[1]] active=2 -> cycle below the active manifest must be CyclicIngredients");
        println!("VERIF-B-SAMPLE violation classes this run: {:?}", counts);
        println!("VERIF-B unit=store test=c19_referenced_manifest_walk_all_small_graphs evaluations={evals} nontrivial={nontrivial} exhaustive={} domain=every directed ingredient graph on 1..=3 manifests (all edge subsets, optional dangling reference) and on 4 manifests ({}), last manifest active; one chain of MAX_INGREDIENT_DEPTH+1", thorough, if thorough { "all 65536" } else { "every 7th of 65536" });
    }

    // ---- the validation walk itself (Store::ingredient_checks): every manifest's ingredient list is walked at most once
    // per store validation, whatever the references' hashes say, so the walk is linear in the number of references.
    // Stores: SIGNED ladders (the walk stops at the first manifest whose signature does not parse, so unsigned graphs
    // would decide nothing): level k references level k-1 twice, each reference carrying the right manifest hash or a
    // wrong one; every combination per level, depth <= 5 (6).  Observation: the VerifyingIngredient checkpoints of a full
    // Store::from_stream; the callback cancels as soon as the linear bound is exceeded, so an exponential walk is
    // reported quickly instead of being waited for.
    fn ladder_level(prev_asset: &[u8], level: usize, flags: (bool, bool), ctx: &Context, signer: &dyn crate::Signer) -> Result<Vec<u8>> {
        use crate::{assertions::{Action, Actions, Relationship}, jumbf::labels::{to_assertion_uri, to_signature_uri}};
        let format = "image/jpeg";
        let mut report = StatusTracker::default();
        let prev_store = Store::from_stream(format, std::io::Cursor::new(prev_asset.to_vec()), &mut report, ctx)?;
        let prev_pc = prev_store.provenance_claim().ok_or(Error::ClaimEncoding)?;
        let prev_hashes = prev_store.get_manifest_box_hashes(prev_pc);
        let mut claim = Claim::new("verif_ladder", Some(&format!("m{level}")), 2);
        claim.add_claim_generator_info(ClaimGeneratorInfo::new("test"));
        let (prev_jumbf, _) = Store::load_jumbf_from_stream(format, &mut std::io::Cursor::new(prev_asset.to_vec()), ctx)?;
        let mut store = Store::load_ingredient_to_claim(&mut claim, &prev_jumbf, None, ctx)?;
        for good in [flags.0, flags.1] {
            let mut h = prev_hashes.manifest_box_hash.clone();
            if !good {
                h[0] ^= 0xff;
            }
            let parent_uri = HashedUri::new(prev_store.provenance_path().ok_or(Error::ClaimEncoding)?, Some(prev_pc.alg().to_string()), &h);
            let sig_uri = HashedUri::new(to_signature_uri(prev_pc.label()), Some(prev_pc.alg().to_string()), &prev_hashes.signature_box_hash);
            let validation = crate::ValidationResults::from_store(&prev_store, &report);
            let ingredient = Ingredient::new_v3(Relationship::InputTo)
                .set_active_manifests_and_signature_from_hashed_uri(Some(parent_uri), Some(sig_uri))
                .set_validation_results(Some(validation));
            claim.add_assertion(&ingredient)?;
        }
        let mut actions = Actions::new().add_action(Action::new("c2pa.created").set_source_type(crate::DigitalSourceType::Empty));
        for ia in claim.ingredient_assertions() {
            let u = HashedUri::new(to_assertion_uri(claim.label(), &ia.label()), Some(claim.alg().to_owned()), ia.hash());
            actions = actions.add_action(Action::new("c2pa.edited").set_parameter("ingredients", vec![u])?);
        }
        claim.add_assertion(&actions)?;
        store.commit_claim(claim)?;
        let mut input = std::io::Cursor::new(std::fs::read(crate::utils::test::fixture_path("IMG_0003.jpg"))?);
        let mut output = std::io::Cursor::new(Vec::new());
        store.save_to_stream(format, &mut input, &mut output, signer, ctx)?;
        Ok(output.into_inner())
    }

    #[test]
    fn c19_ingredient_walk_linear_in_references() {
        use std::sync::{atomic::{AtomicUsize, Ordering}, Arc};
        let thorough = std::env::var("VERIF_B_TIER").map(|t| t == "thorough").unwrap_or(false);
        let max_depth = if thorough { 6 } else { 5 };
        let mut evals = 0usize;
        let mut nontrivial = 0usize;
        let mut counts: std::collections::BTreeMap<String, usize> = std::collections::BTreeMap::new();
        let mut build_ctx = Context::new();
        build_ctx.settings_mut().verify.verify_after_sign = false;
        build_ctx.settings_mut().verify.verify_after_reading = false;
        let signer = crate::utils::test_signer::test_signer(crate::SigningAlg::Ed25519);
        // the leaf
        let leaf: Result<Vec<u8>> = (|| {
            let mut input = std::io::Cursor::new(std::fs::read(crate::utils::test::fixture_path("IMG_0003.jpg"))?);
            let mut output = std::io::Cursor::new(Vec::new());
            crate::utils::test::create_test_store()?.save_to_stream("image/jpeg", &mut input, &mut output, signer.as_ref(), &build_ctx)?;
            Ok(output.into_inner())
        })();
        let Ok(leaf) = leaf else {
            println!("VERIF-B-SAMPLE leaf set-up failed: {:?}", leaf.err());
            println!("VERIF-B unit=store test=c19_ingredient_walk_linear_in_references evaluations=0 nontrivial=0 exhaustive=false domain=set-up failed");
            return;
        };
        // depth-first over the per-level flag combinations: (asset, depth, flags so far)
        let mut stack: Vec<(Vec<u8>, usize, Vec<(bool, bool)>)> = vec![(leaf, 1, Vec::new())];
        let mut setup_failed = 0usize;
        let mut max_walk = 0usize;
        while let Some((asset, depth, flags)) = stack.pop() {
            if depth >= 2 {
                // validate this ladder with default settings and count the ingredient checkpoints
                // the number of ingredient assertions in the whole store (the leaf made by create_test_store has some of
                // its own): each is one loop iteration of the manifest holding it, and every manifest is walked at most once
                let refs: usize = {
                    let mut quiet = StatusTracker::default();
                    match Store::from_stream("image/jpeg", std::io::Cursor::new(asset.clone()), &mut quiet, &build_ctx) {
                        Ok(st) => st.claims().iter().map(|c| c.ingredient_assertions().len()).sum(),
                        Err(_) => {
                            setup_failed += 1;
                            continue;
                        }
                    }
                };
                let seen = Arc::new(AtomicUsize::new(0));
                let s2 = Arc::clone(&seen);
                let ctx = Context::new().with_progress_callback(move |p, _s, _t| {
                    if matches!(p, crate::context::ProgressPhase::VerifyingIngredient) {
                        s2.fetch_add(1, Ordering::SeqCst) < refs
                    } else {
                        true
                    }
                });
                let mut report = StatusTracker::default();
                let r = Store::from_stream("image/jpeg", std::io::Cursor::new(asset.clone()), &mut report, &ctx);
                let walked = seen.load(Ordering::SeqCst);
                max_walk = max_walk.max(walked);
                evals += 1;
                if depth >= 3 {
                    nontrivial += 1;
                }
                if walked > refs || matches!(r, Err(Error::OperationCancelled)) {
                    let c = counts.entry("ingredient_walk.manifest_walked_more_than_once".to_string()).or_insert(0);
                    *c += 1;
                    if *c <= 3 {
                        println!("VERIF-B-VIOLATION key=ingredient_walk.manifest_walked_more_than_once input=signed ladder of {depth} manifests, per level (first, second reference carries the right hash)={flags:?}: more than {refs} VerifyingIngredient checkpoints for a store with {refs} ingredient assertions (result {:?})", r.as_ref().map(|_| "Ok").map_err(|e| format!("{e:?}")));
                    }
                } else if walked < 2 * (depth - 1) && r.is_ok() && flags.iter().all(|f| f.0 && f.1) {
                    let c = counts.entry("ingredient_walk.valid_ladder_not_walked".to_string()).or_insert(0);
                    *c += 1;
                    if *c <= 3 {
                        println!("VERIF-B-VIOLATION key=ingredient_walk.valid_ladder_not_walked input=signed ladder of {depth} manifests with correct hashes: {walked} of {} references visited", 2 * (depth - 1));
                    }
                }
            }
            if depth < max_depth {
                for f in [(true, true), (false, false), (true, false)] {
                    match ladder_level(&asset, depth, f, &build_ctx, signer.as_ref()) {
                        Ok(next) => {
                            let mut fl = flags.clone();
                            fl.push(f);
                            stack.push((next, depth + 1, fl));
                        }
                        Err(e) => {
                            setup_failed += 1;
                            if setup_failed <= 2 {
                                println!("VERIF-B-SAMPLE ladder set-up failed at depth {depth} flags {f:?}: {e:?}");
                            }
                        }
                    }
                }
            }
        }
        println!("VERIF-B-SAMPLE largest number of VerifyingIngredient checkpoints in one validation: {max_walk}; set-up failures: {setup_failed}");
        println!("VERIF-B-SAMPLE violation classes this run: {:?}", counts);
        println!("VERIF-B unit=store test=c19_ingredient_walk_linear_in_references evaluations={evals} nontrivial={nontrivial} exhaustive=true domain=signed ladders of 2..={max_depth} manifests (each level references the level below twice; per level both hashes right / both wrong / one of each: every combination), full Store::from_stream with a progress callback that counts VerifyingIngredient checkpoints");
    }

    // ---- C28 (Engine B): which manifests are selected for an OCSP request at ingredient time
    #[test]
    fn c28_ocsp_label_selection_all_settings() {
        use crate::settings::{builder::OcspFetchScope, Settings};
        let mut evals = 0usize;
        let mut nontrivial = 0usize;
        let mut viol = 0usize;
        for n in 1..=3usize {
            let edges: Vec<Vec<usize>> = (0..n).map(|i| if i == 0 { vec![] } else { vec![i - 1] }).collect();
            let (mut store, labels) = graph_store(n, &edges);
            for set_provenance in [false, true] {
                if set_provenance {
                    if let Some(c) = store.get_claim(&labels[n - 1]).cloned() {
                        store.set_provenance_path(&c);
                    }
                }
                for fetch in [None, Some(OcspFetchScope::All), Some(OcspFetchScope::Active)] {
                    for should_override in [None, Some(false), Some(true)] {
                        let mut s = Settings::default();
                        s.builder.certificate_status_fetch = fetch;
                        s.builder.certificate_status_should_override = should_override;
                        let got = store.get_manifest_labels_for_ocsp(&s);
                        evals += 1;
                        if fetch.is_some() && should_override.is_some() {
                            nontrivial += 1;
                        }
                        let ok = match (fetch, should_override) {
                            (None, _) | (_, None) => got.is_empty(),
                            (Some(OcspFetchScope::Active), _) => got.len() <= 1 && got.iter().all(|l| Some(l.clone()) == store.provenance_label()),
                            (Some(OcspFetchScope::All), _) => got.iter().all(|l| labels.contains(l)),
                        };
                        if !ok {
                            viol += 1;
                            if viol <= 3 {
                                println!("VERIF-B-VIOLATION key=ocsp_labels.selected_without_configuration input=claims={n} provenance_set={set_provenance} certificate_status_fetch={fetch:?} certificate_status_should_override={should_override:?} -> {got:?}");
                            }
                        }
                    }
                }
            }
        }
        println!("VERIF-B unit=store test=c28_ocsp_label_selection_all_settings evaluations={evals} nontrivial={nontrivial} exhaustive=true domain=stores with 1..=3 manifests (with / without an active manifest) x certificate_status_fetch in {{None, All, Active}} x certificate_status_should_override in {{None, false, true}}; violations={viol}");
    }
}
