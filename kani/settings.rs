// unit settings: harnesses for sdk/src/settings/mod.rs (included by the cfg(kani) hook at the end of that file)
#[allow(unused_imports)]
use super::*;
