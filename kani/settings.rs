// unit settings: sdk/src/settings/mod.rs (included by the cfg(kani) hook at the end of that file)
// C25 (Engine B) for the clauses Verus cannot take (serde_json::Value recursion): JSON-merge semantics of merge_json,
// the path law of set_at_path / get_at_path, JSON == TOML parsing, and history independence of Settings::with_value.
#[allow(unused_imports)]
use super::*;

#[cfg(test)]
mod c25 {
    use super::*;
    use serde_json::json;

    fn leaves() -> Vec<Value> {
        vec![Value::Null, json!(true), json!(1), json!("s"), json!([]), json!([1, 2])]
    }
    // all objects over keys {a, b} whose members are absent or drawn from `members`
    fn objects(members: &[Value]) -> Vec<Value> {
        let mut out = Vec::new();
        let opts: Vec<Option<&Value>> = std::iter::once(None).chain(members.iter().map(Some)).collect();
        for a in &opts {
            for b in &opts {
                let mut m = Map::new();
                if let Some(v) = a {
                    m.insert("a".to_string(), (*v).clone());
                }
                if let Some(v) = b {
                    m.insert("b".to_string(), (*v).clone());
                }
                out.push(Value::Object(m));
            }
        }
        out
    }

    // the statement's "recursive merge": objects merge key by key, anything else is replaced by the overlay
    fn reference_merge(t: &Value, o: &Value) -> Value {
        match (t, o) {
            (Value::Object(tm), Value::Object(om)) => {
                let mut r = tm.clone();
                for (k, ov) in om {
                    let merged = match tm.get(k) {
                        Some(tv) => reference_merge(tv, ov),
                        None => reference_merge(&Value::Null, ov),
                    };
                    r.insert(k.clone(), merged);
                }
                Value::Object(r)
            }
            (_, o) => o.clone(),
        }
    }

    #[test]
    fn c25_merge_and_path_laws_small_json_trees() {
        let l = leaves();
        let mut v1: Vec<Value> = l.clone();
        v1.extend(objects(&l));
        let mut v2: Vec<Value> = v1.clone();
        v2.extend(objects(&v1));
        let mut evals = 0usize;
        let mut nontrivial = 0usize;
        let mut counts: std::collections::BTreeMap<String, usize> = std::collections::BTreeMap::new();
        let mut bad = |k: &str, input: String, counts: &mut std::collections::BTreeMap<String, usize>| {
            let c = counts.entry(k.to_string()).or_insert(0);
            *c += 1;
            if *c <= 3 {
                println!("VERIF-B-VIOLATION key={k} input={input}");
            }
        };
        // merge_json == reference merge; idempotent
        for t in v2.iter().step_by(3) {
            for o in &v1 {
                evals += 1;
                if t.is_object() && o.is_object() {
                    nontrivial += 1;
                }
                let mut got = t.clone();
                merge_json(&mut got, o.clone());
                if got != reference_merge(t, o) {
                    bad("settings.merge_differs_from_recursive_merge", format!("target={t} overlay={o} got={got}"), &mut counts);
                }
                let mut again = got.clone();
                merge_json(&mut again, o.clone());
                if again != got {
                    bad("settings.merge_not_idempotent", format!("target={t} overlay={o}"), &mut counts);
                }
            }
        }
        // path law: after set_at_path(t, p, v): get_at_path(t, p) == v, and every path that is not a prefix / extension of p is unchanged
        let paths = ["a", "b", "a.a", "a.b", "b.a", "b.b", "a.a.b", "b.a.a"];
        let related = |p: &str, q: &str| p == q || p.starts_with(&format!("{q}.")) || q.starts_with(&format!("{p}."));
        for t in v2.iter().step_by(5) {
            for p in paths {
                for v in &v1 {
                    evals += 1;
                    nontrivial += 1;
                    let mut got = t.clone();
                    if set_at_path(&mut got, p, v.clone()).is_err() {
                        bad("settings.set_at_path_failed", format!("target={t} path={p} value={v}"), &mut counts);
                        continue;
                    }
                    if get_at_path(&got, p) != Some(v) {
                        bad("settings.path_read_differs_from_value_set", format!("target={t} path={p} value={v} read={:?}", get_at_path(&got, p)), &mut counts);
                    }
                    for q in paths {
                        // a value that was reachable before and is unrelated to p must still be there, unless set_at_path had
                        // to replace a non-object on the way to p
                        if !related(p, q) && get_at_path(t, q).is_some() && get_at_path(&got, q) != get_at_path(t, q) {
                            let prefix_was_object = {
                                let mut ok = true;
                                let mut cur = t;
                                for seg in p.split('.').take(p.split('.').count() - 1) {
                                    match cur.as_object().and_then(|m| m.get(seg)) {
                                        Some(n) if n.is_object() => cur = n,
                                        Some(_) => {
                                            ok = false;
                                            break;
                                        }
                                        None => break,
                                    }
                                }
                                ok
                            };
                            if prefix_was_object {
                                bad("settings.set_at_path_changed_unrelated_path", format!("target={t} path={p} value={v} other={q}"), &mut counts);
                            }
                        }
                    }
                }
            }
        }
        // JSON == TOML for documents both can express (no null, homogeneous arrays, top-level table)
        for t in &v2 {
            fn toml_ok(v: &Value) -> bool {
                match v {
                    Value::Null => false,
                    Value::Object(m) => m.values().all(toml_ok),
                    _ => true,
                }
            }
            if !t.is_object() || !toml_ok(t) {
                continue;
            }
            let Ok(toml_text) = toml::to_string(t) else { continue };
            evals += 1;
            let j = parse_to_value(&t.to_string(), "json");
            let tm = parse_to_value(&toml_text, "toml");
            match (j, tm) {
                (Ok(a), Ok(b)) if a == b && a == *t => {}
                (a, b) => bad("settings.json_toml_differ", format!("doc={t} toml={toml_text:?} json->{:?} toml->{:?}", a.ok(), b.ok()), &mut counts),
            }
        }
        println!("VERIF-B-SAMPLE merge target={{\"a\":{{\"a\":1,\"b\":true}}}} overlay={{\"a\":{{\"a\":null}}}} -> {}", reference_merge(&json!({"a":{"a":1,"b":true}}), &json!({"a":{"a":null}})));
        println!("VERIF-B-SAMPLE violation classes this run: {:?}", counts);
        println!("VERIF-B unit=settings test=c25_merge_and_path_laws_small_json_trees evaluations={evals} nontrivial={nontrivial} exhaustive=true domain=JSON trees of depth <= 2 over keys {{a,b}} and leaves {{null,true,1,\"s\",[],[1,2]}} ({} trees): merge of every 3rd tree with each of {} overlays; 8 paths x {} values on every 5th tree; JSON/TOML on all expressible trees", v2.len(), v1.len(), v1.len());
    }

    // on the real Settings schema: the value read back at a path after with_value(path, v2) does not depend on what was
    // set there before, and is v2 itself for scalar / array values
    #[test]
    fn c25_settings_path_updates_do_not_depend_on_history() {
        let catalog: Vec<(&str, Vec<Value>)> = vec![
            ("verify.verify_trust", vec![json!(true), json!(false)]),
            ("verify.remote_manifest_fetch", vec![json!(true), json!(false)]),
            ("core.merkle_tree_chunk_size_in_kb", vec![json!(1), json!(64), Value::Null]),
            ("core.allowed_network_hosts", vec![json!(["a.ok"]), json!(["a.ok", "*.b.ok"]), json!([]), Value::Null]),
            ("builder.claim_generator_info", vec![json!({"name": "app-a", "build": {"channel": "beta"}}), json!({"name": "app-b"}), json!({"name": "c", "version": "1"})]),
            ("builder.actions.auto_created_action", vec![json!({"enabled": true, "source_type": "empty"}), json!({"enabled": false}), json!({"enabled": true})]),
            ("builder.thumbnail.enabled", vec![json!(true), json!(false)]),
        ];
        let mut evals = 0usize;
        let mut nontrivial = 0usize;
        let mut viol = 0usize;
        for (path, values) in &catalog {
            for v1 in values {
                for v2 in values {
                    let fresh = Settings::default().with_value(path, v2.clone());
                    let after = Settings::default().with_value(path, v1.clone()).and_then(|s| s.with_value(path, v2.clone()));
                    let (Ok(fresh), Ok(after)) = (fresh, after) else { continue };
                    evals += 1;
                    if v1 != v2 {
                        nontrivial += 1;
                    }
                    let a: Result<Value> = fresh.get_value(path);
                    let b: Result<Value> = after.get_value(path);
                    let same = match (&a, &b) {
                        (Ok(x), Ok(y)) => x == y,
                        (Err(_), Err(_)) => true,
                        _ => false,
                    };
                    let scalar_ok = if v2.is_object() { true } else { matches!(&b, Ok(y) if y == v2) || (v2.is_null() && b.is_err()) || (v2.is_null() && matches!(&b, Ok(Value::Null))) };
                    if !same || !scalar_ok {
                        viol += 1;
                        if viol <= 3 {
                            println!("VERIF-B-VIOLATION key=settings.path_update_depends_on_history input=path={path} first={v1} then={v2} read={:?} fresh_read={:?}", b.ok(), a.ok());
                        }
                    }
                }
            }
        }
        println!("VERIF-B unit=settings test=c25_settings_path_updates_do_not_depend_on_history evaluations={evals} nontrivial={nontrivial} exhaustive=true domain=7 settings paths (bool, number, array and two object-valued) x every ordered pair of 2..4 values; violations={viol}");
    }

    // the atomic-failure clause on the real Settings through the public update calls (the same clause the Verus unit
    // proves on the function bodies; this part also decides it when a changed body no longer fits the unit): every
    // update that returns Err leaves the instance exactly as it was, for documents that fail at each stage
    // (parse, format name, type mismatch, validate()), on several starting instances.
    #[test]
    fn c25_failed_updates_leave_settings_unchanged() {
        let starts: Vec<Settings> = [
            r#"{}"#,
            r#"{"verify": {"verify_trust": false}, "core": {"max_decompressed_manifest_size_in_mb": 16}}"#,
            r#"{"core": {"allowed_network_hosts": ["a.ok"], "merkle_tree_chunk_size_in_kb": 64}, "builder": {"thumbnail": {"enabled": false}}}"#,
        ]
        .iter()
        .filter_map(|j| Settings::default().with_json(j).ok())
        .collect();
        // (document, format)
        let docs: Vec<(String, &str)> = vec![
            ("{ not json".to_string(), "json"),
            ("= not toml".to_string(), "toml"),
            (r#"{"verify": {"verify_trust": true}}"#.to_string(), "yaml"),
            (r#"{"verify": {"verify_trust": "maybe"}}"#.to_string(), "json"),
            (r#"{"core": {"merkle_tree_chunk_size_in_kb": "big"}}"#.to_string(), "json"),
            (r#"{"core": {"max_decompressed_manifest_size_in_mb": 4096}}"#.to_string(), "json"),
            ("[core]\nmax_decompressed_manifest_size_in_mb = 4096\n".to_string(), "toml"),
            (r#"{"version": 99}"#.to_string(), "json"),
            (r#"{"trust": {"trust_anchors": "this is not a PEM bundle"}}"#.to_string(), "json"),
            (r#"{"verify": {"verify_trust": true}, "core": {"max_decompressed_manifest_size_in_mb": 2000}}"#.to_string(), "json"),
            (r#"{"builder": {"thumbnail": {"long_edge": -5}}}"#.to_string(), "json"),
            (r#"{"builder": {"actions": {"templates": "none"}}}"#.to_string(), "json"),
        ];
        let paths: Vec<(&str, Value)> = vec![
            ("core.max_decompressed_manifest_size_in_mb", json!(4096)),
            ("version", json!(99)),
            ("verify.verify_trust", json!("maybe")),
            ("trust.trust_anchors", json!("this is not a PEM bundle")),
            ("no.such.path", json!(1)),
        ];
        let snapshot = |s: &Settings| serde_json::to_value(s).unwrap_or(Value::Null);
        let mut evals = 0usize;
        let mut nontrivial = 0usize;
        let mut counts: std::collections::BTreeMap<String, usize> = std::collections::BTreeMap::new();
        let mut stages: std::collections::BTreeSet<String> = std::collections::BTreeSet::new();
        let mut bad = |k: &str, input: String, counts: &mut std::collections::BTreeMap<String, usize>| {
            let c = counts.entry(k.to_string()).or_insert(0);
            *c += 1;
            if *c <= 3 {
                println!("VERIF-B-VIOLATION key={k} input={input}");
            }
        };
        for (si, start) in starts.iter().enumerate() {
            let before = snapshot(start);
            for (doc, format) in &docs {
                evals += 1;
                let mut s = start.clone();
                match s.update_from_str(doc, format) {
                    Err(e) => {
                        nontrivial += 1;
                        stages.insert(format!("{e:?}").chars().take(24).collect());
                        if snapshot(&s) != before {
                            bad("settings.failed_update_changed_settings.update_from_str", format!("start #{si}, update_from_str({doc:?}, {format:?}) -> Err({e}) but the instance changed"), &mut counts);
                        }
                    }
                    Ok(()) => {
                        if s.validate().is_err() {
                            bad("settings.accepted_update_fails_validation", format!("start #{si}, update_from_str({doc:?}, {format:?}) -> Ok but validate() fails"), &mut counts);
                        }
                    }
                }
                // the builder-style twins never touch the receiver
                let r = if *format == "toml" { start.with_toml(doc) } else { start.with_json(doc) };
                if r.is_err() && snapshot(start) != before {
                    bad("settings.failed_update_changed_settings.with_string", format!("start #{si}, with_{format}({doc:?})"), &mut counts);
                }
            }
            for (path, v) in &paths {
                evals += 1;
                let mut s = start.clone();
                match s.set_value(path, v.clone()) {
                    Err(e) => {
                        nontrivial += 1;
                        if snapshot(&s) != before {
                            bad("settings.failed_update_changed_settings.set_value", format!("start #{si}, set_value({path:?}, {v}) -> Err({e}) but the instance changed"), &mut counts);
                        }
                    }
                    Ok(()) => {
                        if s.validate().is_err() {
                            bad("settings.accepted_update_fails_validation", format!("start #{si}, set_value({path:?}, {v}) -> Ok but validate() fails"), &mut counts);
                        }
                    }
                }
            }
        }
        println!("VERIF-B-SAMPLE error kinds met: {:?}", stages);
        println!("VERIF-B-SAMPLE violation classes this run: {:?}", counts);
        println!("VERIF-B unit=settings test=c25_failed_updates_leave_settings_unchanged evaluations={evals} nontrivial={nontrivial} exhaustive=true domain={} starting instances x ({} documents through update_from_str and with_json / with_toml + {} path updates through set_value), documents failing at parse, format, type and validate() stage", starts.len(), docs.len(), paths.len());
    }
}
