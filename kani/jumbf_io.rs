// unit jumbf_io: sdk/src/jumbf_io.rs (included by the cfg(kani) hook at the end of that file)
// C11: the format used for reading is decided by the bytes, not by a wrong hint
// C35 (narrow): the sniffing result does not depend on the piece sizes a stream returns
#[allow(unused_imports)]
use super::*;

// container_from_format depends on a lazy_static HashMap of handler prototypes (intractable in CBMC): replaced by an
// arbitrary-but-fixed function of the hint, chosen once per harness run.
static mut HINTED: Option<&'static str> = None;
fn stub_container_from_format(_format: &str) -> Option<&'static str> {
    unsafe { HINTED }
}

const IDS: [&str; 9] = ["jpg", "png", "gif", "tif", "jxl", "avi", "avif", "flac", "mp3"];

// The signature table, restated independently of the code: which container the leading bytes identify.
// (An ID3v2 tag identifies MP3, or FLAC when the 4 bytes behind the tag are `fLaC`.)
fn spec_container(b: &[u8]) -> Option<&'static str> {
    let n = b.len();
    let at = |i: usize, v: &[u8]| -> bool { n >= i + v.len() && &b[i..i + v.len()] == v };
    if n < 2 {
        return None;
    }
    if at(0, &[0xff, 0xd8, 0xff]) {
        return Some("jpg");
    }
    if at(0, &[0x89, 0x50, 0x4e, 0x47, 0x0d, 0x0a, 0x1a, 0x0a]) {
        return Some("png");
    }
    if at(0, b"GIF87a") || at(0, b"GIF89a") {
        return Some("gif");
    }
    if at(0, &[0x49, 0x49, 0x2a, 0x00]) || at(0, &[0x4d, 0x4d, 0x00, 0x2a]) || at(0, &[0x49, 0x49, 0x2b, 0x00]) || at(0, &[0x4d, 0x4d, 0x00, 0x2b]) {
        return Some("tif");
    }
    if at(0, &[0x00, 0x00, 0x00, 0x0c, 0x4a, 0x58, 0x4c, 0x20, 0x0d, 0x0a, 0x87, 0x0a]) {
        return Some("jxl");
    }
    if at(0, b"RIFF") {
        return Some("avi");
    }
    if at(4, b"ftyp") {
        return Some("avif");
    }
    if at(0, b"fLaC") {
        return Some("flac");
    }
    if n >= 10 && at(0, b"ID3") {
        let tag = ((b[6] as usize & 0x7f) << 21) | ((b[7] as usize & 0x7f) << 14) | ((b[8] as usize & 0x7f) << 7) | (b[9] as usize & 0x7f);
        return if at(10 + tag, b"fLaC") { Some("flac") } else { Some("mp3") };
    }
    if b[0] == 0xff && (b[1] & 0xe0) == 0xe0 {
        return Some("mp3");
    }
    None
}

// complete: 20 symbolic bytes, symbolic length 0..=20, every container class for the hint (or none)
#[kani::proof]
#[kani::stub(container_from_format, stub_container_from_format)]
#[kani::unwind(19)]
fn c11_hint_independent() {
    let data: [u8; 20] = kani::any();
    let len: usize = kani::any();
    kani::assume(len <= 20);
    let mut cur = Cursor::new(&data[..len]);
    let detected = container_from_stream(&mut cur);
    assert!(cur.position() == 0, "stream rewound after sniffing");
    assert!(detected == spec_container(&data[..len]), "the leading bytes identify the container (signature table)");
    let hsel: usize = kani::any();
    kani::assume(hsel <= IDS.len());
    unsafe {
        HINTED = if hsel == IDS.len() { None } else { Some(IDS[hsel]) };
    }
    let out = format_from_stream("zz", &mut cur);
    match detected {
        Some(d) => {
            // the bytes decide: the result maps to the detected container whatever the hint says
            let hinted = unsafe { HINTED };
            if hinted == Some(d) {
                assert!(out == "zz", "a hint of the detected container family is kept");
            } else {
                assert!(out == d, "a wrong or unknown hint is overridden by the detected container");
            }
        }
        None => assert!(out == "zz", "undetectable bytes: the hint is used as is"),
    }
    kani::cover!(detected == Some("png"), "png detectable");
    kani::cover!(detected == Some("flac"), "flac detectable");
    kani::cover!(detected.is_none(), "undetectable prefix exists");
}

// ---- C35: a stream that returns data in short pieces: the first SHORT reads return an arbitrary number (>= 1) of the
// bytes asked for, later reads return everything asked for
struct Pieces<'a> {
    data: &'a [u8],
    pos: usize,
    reads: usize,
    short: usize,
}
impl<'a> Read for Pieces<'a> {
    fn read(&mut self, buf: &mut [u8]) -> std::io::Result<usize> {
        let left = self.data.len() - self.pos;
        if left == 0 || buf.is_empty() {
            return Ok(0);
        }
        let max = if buf.len() < left { buf.len() } else { left };
        let n: usize = if self.reads < self.short { kani::any() } else { max };
        kani::assume(n >= 1 && n <= max);
        self.reads += 1;
        buf[..n].copy_from_slice(&self.data[self.pos..self.pos + n]);
        self.pos += n;
        Ok(n)
    }
}
impl<'a> Seek for Pieces<'a> {
    fn seek(&mut self, p: std::io::SeekFrom) -> std::io::Result<u64> {
        match p {
            std::io::SeekFrom::Start(s) => {
                self.pos = if (s as usize) < self.data.len() { s as usize } else { self.data.len() };
            }
            _ => {
                kani::assume(false);
            }
        }
        Ok(self.pos as u64)
    }
}

// bounded in the stream behaviour only (<= `short` short reads, each of arbitrary size): every 16-byte prefix and
// length; the result is compared with a full-read cursor over the same bytes
fn sniff_independent(short: usize) {
    let data: [u8; 16] = kani::any();
    let len: usize = kani::any();
    kani::assume(len <= 16);
    // the ID3 branch (extra seek + read_exact) is outside this harness
    kani::assume(!(data[0] == b'I' && data[1] == b'D' && data[2] == b'3'));
    let mut whole = Cursor::new(&data[..len]);
    let mut pieces = Pieces { data: &data[..len], pos: 0, reads: 0, short };
    let a = container_from_stream(&mut whole);
    let b = container_from_stream(&mut pieces);
    kani::cover!(a == Some("png"), "png prefix reachable");
    kani::cover!(a.is_none(), "undetectable prefix reachable");
    assert!(a == b, "sniffing result independent of the piece sizes the stream returns");
}

#[kani::proof]
#[kani::unwind(19)]
fn c35_sniff_independent_2_short_reads() {
    sniff_independent(2);
}

#[kani::proof]
#[kani::unwind(19)]
fn c35_sniff_independent_3_short_reads() {
    sniff_independent(3);
}
