// unit jumbf_io: harnesses for sdk/src/jumbf_io.rs (included by the cfg(kani) hook at the end of that file)
#[allow(unused_imports)]
use super::*;
