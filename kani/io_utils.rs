// unit io_utils: sdk/src/utils/io_utils.rs (included by the cfg(kani) hook at the end of that file)
// C10 (resource guards): BoundedVecWriter keeps |inner| <= max_len; read_to_vec refuses to allocate more than is left
#[allow(unused_imports)]
use super::*;


    // C10: the decompression cap is an invariant of BoundedVecWriter
    #[kani::proof]
    #[kani::unwind(3)]
    fn c10_bounded_writer_invariant() {
        let max_len: usize = kani::any();
        kani::assume(max_len <= 1 << 20);
        let n: usize = kani::any();
        kani::assume(n <= max_len);
        let m: usize = kani::any();
        kani::assume(m <= 1 << 20);
        let mut w = BoundedVecWriter { inner: vec![0u8; n], max_len };
        let buf = vec![1u8; m];
        let r = w.write(&buf);
        assert!(w.inner.len() <= max_len);
        match &r {
            Ok(k) => { assert!(*k == m); assert!(w.inner.len() == n + m); }
            Err(_) => { assert!(n + m > max_len); assert!(w.inner.len() == n); }
        }
        std::mem::forget(r);
    }

    // C10: read_to_vec never allocates more than what is left in the stream
    struct Zeros { len: u64, pos: u64 }
    impl Read for Zeros {
        fn read(&mut self, buf: &mut [u8]) -> std::io::Result<usize> {
            let left = self.len - self.pos;
            let n = if (buf.len() as u64) < left { buf.len() } else { left as usize };
            self.pos += n as u64;
            Ok(n)
        }
    }
    impl Seek for Zeros {
        fn seek(&mut self, p: SeekFrom) -> std::io::Result<u64> {
            match p {
                SeekFrom::Start(s) => { self.pos = s; }
                SeekFrom::End(0) => { self.pos = self.len; }
                SeekFrom::Current(0) => {}
                _ => { kani::assume(false); }
            }
            Ok(self.pos)
        }
    }

    #[kani::proof]
    #[kani::unwind(3)]
    fn c10_read_to_vec_guard() {
        let len: u64 = kani::any();
        let pos: u64 = kani::any();
        kani::assume(pos <= len);
        let want: u64 = kani::any();
        let mut z = Zeros { len, pos };
        kani::assume(want > len - pos); // asks for more than is left
        let r = z.read_to_vec(want);
        assert!(r.is_err());
        std::mem::forget(r);
    }

// ---------------------------------------------------------------- C10 (Engine B): no panic, no huge allocation on forged size fields
// Every reader entry point is driven with tiny files (< 200 bytes) of every container format whose size / count /
// offset fields are forged to extreme values, under the matching hint and - with a broken signature - under every
// hint.  Contract: a result or an error (no panic), and no single allocation request above 8 MiB.
#[cfg(test)]
pub(crate) mod c10_alloc {
    use std::alloc::{GlobalAlloc, Layout, System};
    use std::sync::atomic::{AtomicUsize, Ordering};

    pub struct Tracking;
    pub static MAX_REQUEST: AtomicUsize = AtomicUsize::new(0);
    fn note(n: usize) {
        let mut cur = MAX_REQUEST.load(Ordering::Relaxed);
        while n > cur {
            match MAX_REQUEST.compare_exchange(cur, n, Ordering::Relaxed, Ordering::Relaxed) {
                Ok(_) => break,
                Err(c) => cur = c,
            }
        }
    }
    unsafe impl GlobalAlloc for Tracking {
        unsafe fn alloc(&self, l: Layout) -> *mut u8 {
            note(l.size());
            unsafe { System.alloc(l) }
        }
        unsafe fn alloc_zeroed(&self, l: Layout) -> *mut u8 {
            note(l.size());
            unsafe { System.alloc_zeroed(l) }
        }
        unsafe fn realloc(&self, p: *mut u8, l: Layout, new_size: usize) -> *mut u8 {
            note(new_size);
            unsafe { System.realloc(p, l, new_size) }
        }
        unsafe fn dealloc(&self, p: *mut u8, l: Layout) {
            unsafe { System.dealloc(p, l) }
        }
    }
    #[global_allocator]
    static ALLOCATOR: Tracking = Tracking;
}

#[test]
fn c10_forged_size_fields_no_panic_no_huge_allocation() {
    use std::sync::atomic::Ordering;
    let vals32: [u32; 8] = [0, 1, 4, 12, 0x0100_0000, 0x7fff_ffff, 0xffff_fff0, 0xffff_ffff];
    let be = |v: u32| v.to_be_bytes().to_vec();
    let le = |v: u32| v.to_le_bytes().to_vec();
    let mut files: Vec<(&str, String, Vec<u8>)> = Vec::new(); // (mime, description, bytes)
    for &a in &vals32 {
        for &b in &vals32 {
            // RIFF family: RIFF <size> <form> C2PA <size> payload
            for (mime, form) in [("audio/wav", b"WAVE"), ("image/webp", b"WEBP"), ("video/avi", b"AVI ")] {
                for chunk in [b"C2PA", b"LIST", b"fmt "] {
                    let mut f = b"RIFF".to_vec();
                    f.extend(le(a));
                    f.extend_from_slice(form);
                    f.extend_from_slice(chunk);
                    f.extend(le(b));
                    f.extend_from_slice(&[0u8; 12]);
                    files.push((mime, format!("RIFF size={a:#x} {} size={b:#x}", String::from_utf8_lossy(chunk)), f));
                }
            }
            // PNG: signature, IHDR, one chunk with a forged length
            for ty in [b"caBX", b"iTXt", b"IDAT", b"IEND"] {
                let mut f = vec![137u8, 80, 78, 71, 13, 10, 26, 10];
                f.extend(be(a.min(13)));
                f.extend_from_slice(b"IHDR");
                f.extend_from_slice(&[0u8; 17]);
                f.extend(be(b));
                f.extend_from_slice(ty);
                f.extend_from_slice(&[0u8; 16]);
                files.push(("image/png", format!("PNG IHDR len={:#x} {} len={b:#x}", a.min(13), String::from_utf8_lossy(ty)), f));
            }
            // BMFF: ftyp box then a box with a forged size (and 64-bit largesize)
            for ty in [b"uuid", b"moov", b"mdat", b"free"] {
                let mut f = be(16);
                f.extend_from_slice(b"ftypisom");
                f.extend_from_slice(&[0, 0, 0, 0]);
                f.extend(be(a));
                f.extend_from_slice(ty);
                f.extend(be(b));
                f.extend(be(b));
                f.extend_from_slice(&[0xd8, 0xfe, 0xc3, 0xd6, 0x1b, 0x0e, 0x48, 0x3c, 0x92, 0x97, 0x58, 0x28, 0x87, 0x7e, 0xc4, 0x81]);
                f.extend_from_slice(&[0u8; 8]);
                files.push(("video/mp4", format!("BMFF {} size={a:#x} largesize/hi={b:#x}", String::from_utf8_lossy(ty)), f));
            }
            // TIFF: header, IFD offset, entry count, one entry with forged count / offset
            for order in [true, false] {
                let w32 = |v: u32| if order { le(v) } else { be(v) };
                let w16 = |v: u16| if order { v.to_le_bytes().to_vec() } else { v.to_be_bytes().to_vec() };
                let mut f = if order { vec![0x49, 0x49, 0x2a, 0x00] } else { vec![0x4d, 0x4d, 0x00, 0x2a] };
                f.extend(w32(8));
                f.extend(w16((a & 0xffff) as u16));
                f.extend(w16(0xcd41)); // C2PA tag
                f.extend(w16(7));
                f.extend(w32(b));
                f.extend(w32(a));
                f.extend_from_slice(&[0u8; 8]);
                files.push(("image/tiff", format!("TIFF entries={:#x} count={b:#x} offset={a:#x}", a & 0xffff), f));
            }
            // JUMBF sidecar: jumb / jumd with forged sizes
            {
                let mut f = be(a);
                f.extend_from_slice(b"jumb");
                f.extend(be(b));
                f.extend_from_slice(b"jumd");
                f.extend_from_slice(&[0x63, 0x32, 0x70, 0x61, 0x00, 0x11, 0x00, 0x10, 0x80, 0x00, 0x00, 0xaa, 0x00, 0x38, 0x9b, 0x71, 0x03]);
                f.extend_from_slice(b"c2pa\0");
                f.extend_from_slice(&[0u8; 8]);
                files.push(("application/c2pa", format!("JUMBF jumb size={a:#x} jumd size={b:#x}"), f));
            }
            // JPEG XL container
            {
                let mut f = vec![0x00, 0x00, 0x00, 0x0c, 0x4a, 0x58, 0x4c, 0x20, 0x0d, 0x0a, 0x87, 0x0a];
                f.extend(be(a));
                f.extend_from_slice(b"jumb");
                f.extend(be(b));
                f.extend_from_slice(&[0u8; 12]);
                files.push(("image/jxl", format!("JXL box size={a:#x} inner={b:#x}"), f));
            }
        }
        // JPEG: SOI + segment with forged length, APP11 JP header with forged LBox
        for marker in [0xe1u8, 0xeb, 0xe0, 0xfe, 0xda] {
            for len in [0u16, 1, 2, 8, 0xffff] {
                let mut f = vec![0xff, 0xd8, 0xff, marker];
                f.extend_from_slice(&len.to_be_bytes());
                f.extend_from_slice(b"JP");
                f.extend_from_slice(&[0, 1, 0, 0, 0, 1]);
                f.extend(be(a));
                f.extend_from_slice(b"jumb");
                f.extend_from_slice(&[0u8; 16]);
                f.extend_from_slice(&[0xff, 0xd9]);
                files.push(("image/jpeg", format!("JPEG marker={marker:#x} len={len:#x} LBox={a:#x}"), f));
            }
        }
        // MP3: ID3v2 header with a sync-safe size, one GEOB frame with a forged size
        {
            let mut f = b"ID3\x04\x00\x00".to_vec();
            f.extend_from_slice(&[(a >> 21) as u8 & 0x7f, (a >> 14) as u8 & 0x7f, (a >> 7) as u8 & 0x7f, a as u8 & 0x7f]);
            f.extend_from_slice(b"GEOB");
            f.extend(be(a));
            f.extend_from_slice(&[0u8; 14]);
            files.push(("audio/mpeg", format!("ID3 size/GEOB size={a:#x}"), f));
        }
        // GIF: header, logical screen, application extension with forged sub-block sizes
        {
            let mut f = b"GIF89a".to_vec();
            f.extend_from_slice(&[1, 0, 1, 0, 0, 0, 0]);
            f.extend_from_slice(&[0x21, 0xff, 0x0b]);
            f.extend_from_slice(b"C2PA_GIF");
            f.extend_from_slice(&[0x01, 0x00, 0x00]);
            f.push((a & 0xff) as u8);
            f.extend_from_slice(&[0u8; 10]);
            f.push(0x3b);
            files.push(("image/gif", format!("GIF sub-block size={:#x}", a & 0xff), f));
        }
    }
    // JPEG: one APPn / COM segment of EVERY content length 0..=72 (the handlers index fixed offsets of the JUMBF
    // description box inside the first APP11 segment), with and without the JPEG-XT "JP" common header, well-formed
    // length field
    for marker in [0xebu8, 0xe1, 0xfe] {
        for content_len in 0usize..=72 {
            for jp in [false, true] {
                let mut content: Vec<u8> = Vec::new();
                if jp {
                    content.extend_from_slice(b"JP");
                    content.extend_from_slice(&[0, 1, 0, 0, 0, 1, 0, 0, 0, 40]);
                    content.extend_from_slice(b"jumb");
                    content.extend_from_slice(&[0, 0, 0, 32]);
                    content.extend_from_slice(b"jumd");
                    content.extend_from_slice(b"c2pa\x00\x11\x00\x10\x80\x00\x00\xaa\x00\x38\x9b\x71\x03c2pa\x00");
                }
                content.resize(content_len, 0x41);
                let mut f = vec![0xff, 0xd8, 0xff, marker];
                f.extend_from_slice(&((content_len + 2) as u16).to_be_bytes());
                f.extend_from_slice(&content);
                f.extend_from_slice(&[0xff, 0xd9]);
                files.push(("image/jpeg", format!("JPEG marker={marker:#x} with {content_len} content bytes (JP header: {jp})"), f));
            }
        }
    }
    files.push(("image/svg+xml", "SVG unterminated metadata".to_string(), b"<svg xmlns=\"http://www.w3.org/2000/svg\"><metadata><c2pa:manifest>AAAA".to_vec()));
    let hints = ["image/jpeg", "image/png", "image/gif", "image/tiff", "audio/wav", "image/webp", "video/avi", "video/mp4", "audio/mpeg", "image/svg+xml", "image/jxl", "application/c2pa", "audio/flac"];
    let limit = 8usize << 20;
    let mut evals = 0usize;
    let mut nontrivial = 0usize;
    let mut counts: std::collections::BTreeMap<String, usize> = std::collections::BTreeMap::new();
    let mut run = |mime: &str, desc: &str, bytes: &[u8], counts: &mut std::collections::BTreeMap<String, usize>| {
        c10_alloc::MAX_REQUEST.store(0, Ordering::Relaxed);
        let r = std::panic::catch_unwind(|| {
            let _ = crate::Reader::from_context(crate::utils::test::test_context()).with_stream(mime, std::io::Cursor::new(bytes.to_vec()));
        });
        let peak = c10_alloc::MAX_REQUEST.load(Ordering::Relaxed);
        let key = if r.is_err() {
            Some(format!("untrusted_input.panic.{}", mime.replace('/', "_")))
        } else if peak > limit {
            Some(format!("untrusted_input.huge_allocation.{}", mime.replace('/', "_")))
        } else {
            None
        };
        if let Some(k) = key {
            let c = counts.entry(k.clone()).or_insert(0);
            *c += 1;
            if *c <= 3 {
                println!("VERIF-B-VIOLATION key={k} input={desc} ({} bytes) read as {mime}: largest single allocation request {peak} bytes{}", bytes.len(), if r.is_err() { ", PANIC" } else { "" });
            }
        }
    };
    for (mime, desc, bytes) in &files {
        evals += 1;
        nontrivial += 1;
        run(mime, desc, bytes, &mut counts);
    }
    // broken signature (first byte flipped): the hint decides which parser sees the bytes
    for (i, (_, desc, bytes)) in files.iter().enumerate() {
        if i % 5 != 0 {
            continue;
        }
        let mut b = bytes.clone();
        b[0] ^= 0x55;
        for h in hints {
            evals += 1;
            run(h, &format!("{desc} with broken signature"), &b, &mut counts);
        }
    }
    println!("VERIF-B-SAMPLE RIFF size=0xffffffff C2PA size=0xffffffef (36 bytes) read as audio/wav must fail without a 4 GiB allocation");
    println!("VERIF-B-SAMPLE violation classes this run: {:?}", counts);
    println!("VERIF-B unit=io_utils test=c10_forged_size_fields_no_panic_no_huge_allocation evaluations={evals} nontrivial={nontrivial} exhaustive=true domain={} forged files < 200 bytes (RIFF/WAV/WEBP/AVI, PNG, BMFF, TIFF, JUMBF sidecar, JPEG XL, JPEG (also one APP11 / APP1 / COM segment of every content length 0..=72), MP3, GIF, SVG; size / count / offset fields from {{0,1,4,12,2^24,2^31-1,2^32-16,2^32-1}}) under their own hint, every 5th also with a broken signature under 13 hints; limit 8 MiB per allocation", files.len());
}
