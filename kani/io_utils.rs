// unit io_utils: sdk/src/utils/io_utils.rs (included by the cfg(kani) hook at the end of that file)
// C10 (resource guards): BoundedVecWriter keeps |inner| <= max_len; read_to_vec refuses to allocate more than is left
#[allow(unused_imports)]
use super::*;


    // C10: the decompression cap is an invariant of BoundedVecWriter
    #[kani::proof]
    #[kani::unwind(3)]
    fn c10_bounded_writer_invariant() {
        let max_len: usize = kani::any();
        kani::assume(max_len <= 1 << 20);
        let n: usize = kani::any();
        kani::assume(n <= max_len);
        let m: usize = kani::any();
        kani::assume(m <= 1 << 20);
        let mut w = BoundedVecWriter { inner: vec![0u8; n], max_len };
        let buf = vec![1u8; m];
        let r = w.write(&buf);
        assert!(w.inner.len() <= max_len);
        match &r {
            Ok(k) => { assert!(*k == m); assert!(w.inner.len() == n + m); }
            Err(_) => { assert!(n + m > max_len); assert!(w.inner.len() == n); }
        }
        std::mem::forget(r);
    }

    // C10: read_to_vec never allocates more than what is left in the stream
    struct Zeros { len: u64, pos: u64 }
    impl Read for Zeros {
        fn read(&mut self, buf: &mut [u8]) -> std::io::Result<usize> {
            let left = self.len - self.pos;
            let n = if (buf.len() as u64) < left { buf.len() } else { left as usize };
            self.pos += n as u64;
            Ok(n)
        }
    }
    impl Seek for Zeros {
        fn seek(&mut self, p: SeekFrom) -> std::io::Result<u64> {
            match p {
                SeekFrom::Start(s) => { self.pos = s; }
                SeekFrom::End(0) => { self.pos = self.len; }
                SeekFrom::Current(0) => {}
                _ => { kani::assume(false); }
            }
            Ok(self.pos)
        }
    }

    #[kani::proof]
    #[kani::unwind(3)]
    fn c10_read_to_vec_guard() {
        let len: u64 = kani::any();
        let pos: u64 = kani::any();
        kani::assume(pos <= len);
        let want: u64 = kani::any();
        let mut z = Zeros { len, pos };
        kani::assume(want > len - pos); // asks for more than is left
        let r = z.read_to_vec(want);
        assert!(r.is_err());
        std::mem::forget(r);
    }
