// unit boxes: sdk/src/jumbf/boxes.rs (included by the cfg(kani) hook at the end of that file)
// C10 (resource guards): bounded JUMBF nesting and a total box-header decoder
#[allow(unused_imports)]
use super::*;

// complete: for every depth at or above the limit the parser refuses before it reads anything (no recursion, no allocation)
#[kani::proof]
#[kani::unwind(3)]
fn c10_jumbf_depth_guard() {
    let depth: usize = kani::any();
    kani::assume(depth >= BoxReader::MAX_JUMB_DEPTH);
    let data = [0u8; 4];
    let mut cur = Cursor::new(&data[..]);
    let r = BoxReader::read_super_box_impl(&mut cur, depth);
    assert!(matches!(r, Err(JumbfParseError::BoxNestingTooDeep)), "nesting at or beyond MAX_JUMB_DEPTH is refused");
    assert!(cur.position() == 0, "nothing is read before the depth check");
    std::mem::forget(r);
}

// complete: read_header is total on any 16 bytes of any length 0..=16 and decodes size / type / largesize
#[kani::proof]
#[kani::unwind(18)]
fn c10_read_header_total() {
    let data: [u8; 16] = kani::any();
    let len: usize = kani::any();
    kani::assume(len <= 16);
    let mut cur = Cursor::new(&data[..len]);
    let r = BoxReader::read_header(&mut cur);
    if len == 0 {
        assert!(matches!(&r, Ok(h) if h.name == BoxType::Empty && h.size == 0), "end of stream is the Empty header");
    }
    if len >= 8 {
        let size = u32::from_be_bytes([data[0], data[1], data[2], data[3]]);
        if size != 1 {
            assert!(matches!(&r, Ok(h) if h.size == size as u64), "32-bit size decoded");
        } else if len == 16 {
            let large = u64::from_be_bytes([data[8], data[9], data[10], data[11], data[12], data[13], data[14], data[15]]);
            assert!(matches!(&r, Ok(h) if h.size == large), "64-bit largesize decoded");
        } else {
            assert!(r.is_err(), "truncated largesize is an error");
        }
    }
    kani::cover!(len == 16 && data[3] == 1 && data[0] == 0 && data[1] == 0 && data[2] == 0, "largesize header reachable");
    std::mem::forget(r);
}
