// unit boxes: harnesses for sdk/src/jumbf/boxes.rs (included by the cfg(kani) hook at the end of that file)
#[allow(unused_imports)]
use super::*;
