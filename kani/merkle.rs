// unit merkle: sdk/src/utils/merkle.rs (included by the cfg(kani) hook at the end of that file)
// C17: MerkleAccumulator::add_merkle_leaf (Engine B: bounded-exhaustive, native, real code)
// C16: native replay driver for the Verus unit (all n <= N, every index, every row, on the real code)
#[allow(unused_imports)]
use super::*;

// ---------------------------------------------------------------- C17 contract
// View: fed(acc, id) = pre-images of the recorded leaves ++ remainder.  Contract (from the statement: "the recorded
// leaves depend only on the concatenated payload"): after feeding chunks c1..ck of one mdat,
//   large_size == false: fed == (c1 ++ .. ++ ck)[8..]   (exactly the 8-byte size/type header is skipped)
//   large_size == true : fed == c1 ++ .. ++ ck          (the caller already skipped the 16-byte header)
//   fixed size fs: every leaf has length fs, |remainder| < fs, and there is no remainder entry of length 0..: rem == body[n*fs..]
// Written through hash_by_alg so the same text is the contract natively (SHA-256).
fn c17_contract(payload: &[u8], cuts: &[usize], fixed: Option<usize>, large: bool) -> Result<(), String> {
    let mut acc = MerkleAccumulator::default();
    acc.fixed_size = fixed;
    let mut prev = 0usize;
    let mut pieces: Vec<&[u8]> = Vec::new();
    for &c in cuts {
        pieces.push(&payload[prev..c]);
        prev = c;
    }
    pieces.push(&payload[prev..]);
    for p in &pieces {
        let r = std::panic::catch_unwind(std::panic::AssertUnwindSafe(|| acc.add_merkle_leaf(0, large, p)));
        match r {
            Err(_) => return Err("panic".to_string()),
            Ok(Err(e)) => return Err(format!("error {e:?}")),
            Ok(Ok(())) => {}
        }
    }
    let skip = if large { 0 } else { 8 };
    let body: &[u8] = if payload.len() > skip { &payload[skip..] } else { &[] };
    let leaves = acc.merkle_leaves.get(&0).cloned().unwrap_or_default();
    match fixed {
        Some(fs) => {
            // an entry of length 0 is not "no remainder": Builder::update_hash_from_stream flushes EVERY entry as a last leaf,
            // so an empty one becomes an extra zero-length leaf that depends on how the payload was cut
            if acc.fixed_size_remainder.get(&0).is_some_and(|r| r.is_empty()) {
                return Err("an empty remainder entry is left behind (flushed as an extra zero-length leaf)".to_string());
            }
            let rem = acc.fixed_size_remainder.get(&0).cloned().unwrap_or_default();
            if leaves.len() != body.len() / fs {
                return Err(format!("{} leaves recorded, {} expected", leaves.len(), body.len() / fs));
            }
            if rem.len() != body.len() % fs {
                return Err(format!("remainder {} bytes, {} expected", rem.len(), body.len() % fs));
            }
            for (k, (len, h)) in leaves.iter().enumerate() {
                if *len as usize != fs || *h != hash_by_alg("sha256", &body[k * fs..(k + 1) * fs], None) {
                    return Err(format!("leaf {k} is not the digest of body[{}..{}]", k * fs, (k + 1) * fs));
                }
            }
            if rem[..] != body[leaves.len() * fs..] {
                return Err("remainder bytes differ".to_string());
            }
            Ok(())
        }
        None => {
            // variable leaves: consecutive slices of the body, in order, covering it exactly
            let mut pos = 0usize;
            for (k, (len, h)) in leaves.iter().enumerate() {
                let l = *len as usize;
                if pos + l > body.len() || *h != hash_by_alg("sha256", &body[pos..pos + l], None) {
                    return Err(format!("leaf {k} is not the digest of the next {l} body bytes at {pos}"));
                }
                pos += l;
            }
            if pos != body.len() {
                return Err(format!("leaves cover {pos} of {} body bytes", body.len()));
            }
            Ok(())
        }
    }
}

#[test]
fn c17_add_merkle_leaf_all_splits() {
    let thorough = std::env::var("VERIF_B_TIER").map(|t| t == "thorough").unwrap_or(false);
    let n: usize = if thorough { 28 } else { 20 };
    let payload: Vec<u8> = (1u8..=n as u8).collect();
    let mut evals = 0usize;
    let mut nontrivial = 0usize;
    let mut viol = 0usize;
    let mut shown: std::collections::BTreeMap<String, usize> = std::collections::BTreeMap::new();
    for large in [false, true] {
        for fixed in [None, Some(2usize), Some(3), Some(5)] {
            for a in 0..=n {
                for b in a..=n {
                    for c in b..=n {
                        // 2-way splits are the b == c == n cases, 3-way the c == n cases, 4-way the rest
                        if !thorough && c != n {
                            continue;
                        }
                        evals += 1;
                        if a > 0 && a < n {
                            nontrivial += 1;
                        }
                        if let Err(why) = c17_contract(&payload, &[a, b, c], fixed, large) {
                            viol += 1;
                            // input class: length of the first non-empty chunk
                            let first = if a > 0 { a } else if b > 0 { b } else if c > 0 { c } else { n };
                            let key = if why == "panic" {
                                "add_merkle_leaf.panic".to_string()
                            } else if !large && first <= 8 {
                                "add_merkle_leaf.header_skip.first_chunk_1to8".to_string()
                            } else {
                                "add_merkle_leaf.fed_bytes".to_string()
                            };
                            let cnt = shown.entry(key.clone()).or_insert(0);
                            *cnt += 1;
                            if *cnt <= 5 {
                                println!("VERIF-B-VIOLATION key={key} input=payload=1..={n} cuts=[{a},{b},{c}] fixed={fixed:?} large={large}: {why}");
                            }
                        }
                    }
                }
            }
        }
    }
    println!("VERIF-B-SAMPLE payload=1..={n} cuts=[3,9,{n}] fixed=Some(3) large=false -> {:?}", c17_contract(&payload, &[3, 9, n], Some(3), false));
    println!("VERIF-B-SAMPLE payload=1..={n} cuts=[10,15,{n}] fixed=None large=true -> {:?}", c17_contract(&payload, &[10, 15, n], None, true));
    println!("VERIF-B unit=merkle test=c17_add_merkle_leaf_all_splits evaluations={evals} nontrivial={nontrivial} exhaustive=true domain=payload of {n} bytes x every {} split x fixed_size in {{None,2,3,5}} x large_size in {{false,true}}; violations={viol}", if thorough { "2/3/4-way" } else { "2/3-way" });
}

// the statement's own quantifier: leaf sizes 1 KB and 64 KB (set through the real set_fixed_size), first chunks of 0..=32 bytes,
// second cuts around every header / leaf boundary, and deterministic pseudo-random multi-way splits
#[test]
fn c17_add_merkle_leaf_kb_leaf_sizes() {
    let thorough = std::env::var("VERIF_B_TIER").map(|t| t == "thorough").unwrap_or(false);
    let mut evals = 0usize;
    let mut nontrivial = 0usize;
    let mut viol = 0usize;
    let mut shown: std::collections::BTreeMap<String, usize> = std::collections::BTreeMap::new();
    let mut report = |why: String, desc: String, large: bool, first: usize, viol: &mut usize| {
        *viol += 1;
        let key = if why == "panic" {
            "add_merkle_leaf.panic".to_string()
        } else if !large && first <= 8 {
            "add_merkle_leaf.header_skip.first_chunk_1to8".to_string()
        } else {
            "add_merkle_leaf.fed_bytes".to_string()
        };
        let cnt = shown.entry(key.clone()).or_insert(0);
        *cnt += 1;
        if *cnt <= 5 {
            println!("VERIF-B-VIOLATION key={key} input={desc}: {why}");
        }
    };
    for kb in [1usize, 64] {
        let mut probe = MerkleAccumulator::default();
        probe.set_fixed_size(kb);
        let fixed = probe.fixed_size;
        let fs = fixed.unwrap_or(0);
        let n = 2 * fs + 700 + 8;
        let payload: Vec<u8> = (0..n).map(|i| (i as u32).wrapping_mul(2654435761).to_be_bytes()[0]).collect();
        for large in [false, true] {
            let hdr = if large { 0 } else { 8 };
            let mut seconds: Vec<usize> = Vec::new();
            for base in [hdr, hdr + fs, hdr + 2 * fs] {
                for d in [-2i64, -1, 0, 1, 2] {
                    let v = base as i64 + d;
                    if v >= 0 && (v as usize) <= n {
                        seconds.push(v as usize);
                    }
                }
            }
            seconds.push(n);
            for a in 0..=32usize {
                let mut bs: Vec<usize> = seconds.iter().copied().filter(|b| *b >= a).collect();
                if kb == 1 || thorough {
                    bs.extend(a..=a + 32);
                }
                for b in bs {
                    evals += 1;
                    if a > 0 {
                        nontrivial += 1;
                    }
                    if let Err(why) = c17_contract(&payload, &[a, b], fixed, large) {
                        let first = if a > 0 { a } else if b > 0 { b } else { n };
                        report(why, format!("leaf={kb}KB payload={n} bytes cuts=[{a},{b}] large={large}"), large, first, &mut viol);
                    }
                }
            }
            // pseudo-random multi-way splits (fixed LCG, so every run explores the same set)
            let rounds = if kb == 1 { if thorough { 2000 } else { 300 } } else if thorough { 200 } else { 30 };
            let mut st: u64 = 0x9E3779B97F4A7C15 ^ (kb as u64) ^ ((large as u64) << 7);
            for _ in 0..rounds {
                let mut cuts: Vec<usize> = Vec::new();
                let ways = 2 + (st >> 60) as usize % 6;
                for _ in 0..ways {
                    st = st.wrapping_mul(6364136223846793005).wrapping_add(1442695040888963407);
                    // half of the cuts land in the first 40 bytes, where the header logic lives
                    let c = if (st >> 33) & 1 == 0 { (st >> 40) as usize % 41 } else { (st >> 20) as usize % (n + 1) };
                    cuts.push(c);
                }
                cuts.sort();
                evals += 1;
                nontrivial += 1;
                if let Err(why) = c17_contract(&payload, &cuts, fixed, large) {
                    let first = cuts.iter().copied().find(|c| *c > 0).unwrap_or(n);
                    report(why, format!("leaf={kb}KB payload={n} bytes cuts={cuts:?} large={large}"), large, first, &mut viol);
                }
            }
        }
    }
    println!("VERIF-B-SAMPLE leaf=1KB cuts=[3,1032] large=false: leaves and remainder equal the digests of payload[8..] cut every 1024 bytes");
    println!("VERIF-B unit=merkle test=c17_add_merkle_leaf_kb_leaf_sizes evaluations={evals} nontrivial={nontrivial} exhaustive=false domain=leaf sizes 1 KB and 64 KB via set_fixed_size x large_size in {{false,true}} x first cut 0..=32 x second cut around header and leaf boundaries (1 KB: also first cut + 0..=32) + fixed-seed random 2..7-way splits; violations={viol}");
}

// ---------------------------------------------------------------- C16 native replay / differential driver
// every leaf count n <= N, every leaf index, every stored row: the real generate/prove/check functions agree
#[test]
fn c16_generated_proofs_verify_natively() {
    use crate::assertions::{MerkleMap, VecByteBuf};
    use serde_bytes::ByteBuf;
    let thorough = std::env::var("VERIF_B_TIER").map(|t| t == "thorough").unwrap_or(false);
    let max_n: usize = if thorough { 300 } else { 40 };
    let mut evals = 0usize;
    let mut nontrivial = 0usize;
    let mut viol = 0usize;
    for n in 1..=max_n {
        let leaves: Vec<MerkleNode> = (0..n).map(|i| MerkleNode(hash_by_alg("sha256", &(i as u32).to_be_bytes(), None))).collect();
        let tree = C2PAMerkleTree::from_leaves(leaves.clone(), "sha256", false);
        for row in 0..tree.layers.len() {
            let hashes: Vec<ByteBuf> = tree.layers[row].iter().map(|nd| ByteBuf::from(nd.0.clone())).collect();
            let mm = MerkleMap {
                unique_id: 0,
                local_id: 0,
                count: n,
                alg: Some("sha256".to_string()),
                init_hash: None,
                hashes: VecByteBuf(hashes),
                fixed_block_size: None,
                variable_block_sizes: None,
            };
            for i in 0..n {
                evals += 1;
                if n > 1 {
                    nontrivial += 1;
                }
                let proof = match tree.get_proof_by_index(i, row) {
                    Ok(p) => p,
                    Err(_) => {
                        viol += 1;
                        println!("VERIF-B-VIOLATION key=merkle.get_proof_by_index.err input=n={n} row={row} index={i}");
                        continue;
                    }
                };
                let pv = if proof.is_empty() { None } else { Some(VecByteBuf(proof.into_iter().map(ByteBuf::from).collect())) };
                if !mm.check_merkle_tree("sha256", &leaves[i].0, i, &pv) {
                    viol += 1;
                    if viol < 20 {
                        println!("VERIF-B-VIOLATION key=merkle.generated_proof_rejected input=n={n} row={row} index={i}");
                    }
                }
                // a different leaf value must not verify at the same index with the same proof
                let other = hash_by_alg("sha256", b"not a leaf", None);
                if mm.check_merkle_tree("sha256", &other, i, &pv) {
                    viol += 1;
                    if viol < 20 {
                        println!("VERIF-B-VIOLATION key=merkle.foreign_leaf_accepted input=n={n} row={row} index={i}");
                    }
                }
            }
        }
    }
    println!("VERIF-B-SAMPLE n=5 row=1 index=4: proof generated by get_proof_by_index verified by check_merkle_tree");
    println!("VERIF-B unit=merkle test=c16_generated_proofs_verify_natively evaluations={evals} nontrivial={nontrivial} exhaustive=true domain=leaf counts 1..={max_n} x every stored row x every leaf index; violations={viol}");
}
