// unit merkle: harnesses for sdk/src/utils/merkle.rs (included by the cfg(kani) hook at the end of that file)
#[allow(unused_imports)]
use super::*;
