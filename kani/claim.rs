// unit claim: harnesses for sdk/src/claim.rs (included by the cfg(kani) hook at the end of that file)
#[allow(unused_imports)]
use super::*;
