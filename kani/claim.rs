// unit claim: sdk/src/claim.rs (included by the cfg(kani) hook at the end of that file)
// C01 end-to-end stand-in (Engine B) for the part of the binding that lives in Claim::verify_hash_binding (350 lines,
// outside both verifiers): sign an asset with the SDK, apply every mutation of a stated family to bytes that the signed
// hard binding does NOT declare excluded, read it back: the reader must fail or report Invalid - never Valid / Trusted.
#[allow(unused_imports)]
use super::*;

#[cfg(test)]
mod c01 {
    use std::io::Cursor;

    use crate::{utils::test::{fixture_path, test_context}, Builder, BuilderIntent, DigitalSourceType, Reader, ValidationState};

    fn sign(bytes: &[u8], mime: &str, settings: Option<&str>) -> crate::Result<Vec<u8>> {
        let mut ctx = test_context();
        if let Some(s) = settings {
            ctx = ctx.with_settings(s)?;
        }
        let shared = ctx.into_shared();
        let mut b = Builder::from_shared_context(&shared).with_definition(r#"{"title":"t","assertions":[]}"#)?;
        b.set_intent(BuilderIntent::Create(DigitalSourceType::Empty));
        let mut src = Cursor::new(bytes.to_vec());
        let mut dst = Cursor::new(Vec::new());
        b.save_to_stream(mime, &mut src, &mut dst)?;
        Ok(dst.into_inner())
    }

    // Ok(state, json) or Err
    fn read(bytes: &[u8], mime: &str) -> Result<(ValidationState, String), String> {
        match Reader::from_context(test_context()).with_stream(mime, Cursor::new(bytes.to_vec())) {
            Ok(r) => Ok((r.validation_state(), r.json())),
            Err(e) => Err(e.to_string()),
        }
    }

    // the exclusions the signed data-hash assertion declares (empty for a box hash)
    fn exclusions(json: &str) -> Vec<(usize, usize)> {
        fn walk(v: &serde_json::Value, out: &mut Vec<(usize, usize)>) {
            match v {
                serde_json::Value::Object(m) => {
                    if let Some(serde_json::Value::Array(a)) = m.get("exclusions") {
                        for e in a {
                            if let (Some(s), Some(l)) = (e.get("start").and_then(|x| x.as_u64()), e.get("length").and_then(|x| x.as_u64())) {
                                out.push((s as usize, l as usize));
                            }
                        }
                    }
                    for (_, x) in m {
                        walk(x, out);
                    }
                }
                serde_json::Value::Array(a) => {
                    for x in a {
                        walk(x, out);
                    }
                }
                _ => {}
            }
        }
        let mut out = Vec::new();
        if let Ok(v) = serde_json::from_str::<serde_json::Value>(json) {
            walk(&v, &mut out);
        }
        out
    }

    // JPEG header segments before SOS: (offset, total length, marker)
    fn jpeg_segments(j: &[u8]) -> Vec<(usize, usize, u8)> {
        let mut out = Vec::new();
        let mut pos = 2;
        while pos + 4 <= j.len() && j[pos] == 0xff {
            let m = j[pos + 1];
            if m == 0xda {
                break;
            }
            let len = u16::from_be_bytes([j[pos + 2], j[pos + 3]]) as usize + 2;
            out.push((pos, len, m));
            pos += len;
        }
        out
    }

    // PNG chunks: (offset, total length, type)
    fn png_chunks(p: &[u8]) -> Vec<(usize, usize, [u8; 4])> {
        let mut out = Vec::new();
        let mut pos = 8;
        while pos + 12 <= p.len() {
            let len = u32::from_be_bytes([p[pos], p[pos + 1], p[pos + 2], p[pos + 3]]) as usize + 12;
            out.push((pos, len, [p[pos + 4], p[pos + 5], p[pos + 6], p[pos + 7]]));
            pos += len;
        }
        out
    }

    struct Run {
        evals: usize,
        nontrivial: usize,
        counts: std::collections::BTreeMap<String, usize>,
    }

    impl Run {
        fn expect_detected(&mut self, class: &str, what: String, mutated: &[u8], mime: &str) {
            self.evals += 1;
            self.nontrivial += 1;
            if let Ok((state, _)) = read(mutated, mime) {
                if state != ValidationState::Invalid {
                    let k = format!("tamper.{class}");
                    let c = self.counts.entry(k.clone()).or_insert(0);
                    *c += 1;
                    if *c <= 3 || std::env::var("VERIF_B_ALL").is_ok() {
                        println!("VERIF-B-VIOLATION key={k} input={what} -> reader reports {state:?}");
                    }
                }
            }
        }
    }

    fn inside(ex: &[(usize, usize)], p: usize) -> bool {
        ex.iter().any(|(s, l)| p >= *s && p < s + l)
    }

    // the family of mutations common to every format: flips on a grid (all early bytes), appends, truncations
    fn common_mutations(run: &mut Run, tag: &str, signed: &[u8], mime: &str, ex: &[(usize, usize)], c2pa: (usize, usize)) {
        let n = signed.len();
        let stride = (n / 60).max(1);
        let mut positions: Vec<usize> = (0..64.min(n)).collect();
        positions.extend((64..n).step_by(stride));
        positions.extend([c2pa.0.saturating_sub(1), c2pa.1, c2pa.1 + 1, n - 1, n - 2]);
        for p in positions {
            if p >= n || inside(ex, p) || (p >= c2pa.0 && p < c2pa.1) {
                continue; // bytes the signed binding itself excludes / the manifest store (C02)
            }
            for mask in [0x01u8, 0x80] {
                let mut m = signed.to_vec();
                m[p] ^= mask;
                run.expect_detected(&format!("{tag}.byte_flip_accepted"), format!("{tag}: flip bit {mask:#x} of byte {p} of {n}"), &m, mime);
            }
        }
        for k in [1usize, 16, 37] {
            let mut m = signed.to_vec();
            m.extend(std::iter::repeat(0x5au8).take(k));
            run.expect_detected(&format!("{tag}.append_accepted"), format!("{tag}: append {k} bytes"), &m, mime);
            if n > k + c2pa.1 {
                run.expect_detected(&format!("{tag}.truncation_accepted"), format!("{tag}: truncate {k} bytes"), &signed[..n - k], mime);
            }
        }
    }

    fn jpeg_mutations(run: &mut Run, tag: &str, signed: &[u8], ex: &[(usize, usize)]) {
        let segs = jpeg_segments(signed);
        // the C2PA container: consecutive APP11 'JP' segments
        let c2pa_segs: Vec<&(usize, usize, u8)> = segs.iter().filter(|(o, l, m)| *m == 0xeb && *l > 20 && &signed[o + 4..o + 6] == b"JP").collect();
        let (c0, c1) = match (c2pa_segs.first(), c2pa_segs.last()) {
            (Some(a), Some(b)) => (a.0, b.0 + b.1),
            _ => (0, 0),
        };
        common_mutations(run, tag, signed, "image/jpeg", ex, (c0, c1));
        if c2pa_segs.is_empty() {
            return;
        }
        let first = c2pa_segs[0];
        let en = [signed[first.0 + 6], signed[first.0 + 7]];
        let lbox_tbox: Vec<u8> = signed[first.0 + 12..first.0 + 20].to_vec();
        // insertions at every structural boundary that is not inside the container
        let mut boundaries: Vec<usize> = segs.iter().map(|(o, _, _)| *o).collect();
        if let Some((o, l, _)) = segs.last() {
            boundaries.push(o + l);
        }
        for q in boundaries {
            if q > c0 && q < c1 {
                continue;
            }
            // (a) a foreign APP1 segment
            let mut seg = vec![0xff, 0xe1, 0x00, 0x12];
            seg.extend_from_slice(b"unsigned-content");
            let mut m = signed[..q].to_vec();
            m.extend_from_slice(&seg);
            m.extend_from_slice(&signed[q..]);
            run.expect_detected(&format!("{tag}.inserted_segment_accepted"), format!("{tag}: APP1 segment of {} bytes inserted at {q}", seg.len()), &m, "image/jpeg");
            // (b) an APP11 'JP' segment that claims to belong to the manifest store (same En) with a stale / fresh sequence number
            for z in [1u32, c2pa_segs.len() as u32 + 1, 0] {
                let mut contents = Vec::new();
                contents.extend_from_slice(b"JP");
                contents.extend_from_slice(&en);
                contents.extend_from_slice(&z.to_be_bytes());
                contents.extend_from_slice(&lbox_tbox);
                contents.extend(std::iter::repeat(0x42u8).take(200));
                let mut seg = vec![0xff, 0xeb];
                seg.extend_from_slice(&((contents.len() + 2) as u16).to_be_bytes());
                seg.extend_from_slice(&contents);
                let mut m = signed[..q].to_vec();
                m.extend_from_slice(&seg);
                m.extend_from_slice(&signed[q..]);
                let class = if q == c1 { "c2pa_like_segment_directly_after_store_accepted" } else { "inserted_c2pa_like_segment_accepted" };
                run.expect_detected(&format!("{tag}.{class}"), format!("{tag}: APP11 JP segment (En of the store, Z={z}, {} bytes) inserted at {q} (store is {c0}..{c1})", seg.len()), &m, "image/jpeg");
            }
        }
        // deletion of every non-C2PA header segment
        for (o, l, mk) in &segs {
            if *o >= c0 && *o < c1 {
                continue;
            }
            let mut m = signed[..*o].to_vec();
            m.extend_from_slice(&signed[o + l..]);
            run.expect_detected(&format!("{tag}.deleted_segment_accepted"), format!("{tag}: segment {mk:#x} at {o} (+{l}) deleted"), &m, "image/jpeg");
        }
    }

    fn png_mutations(run: &mut Run, tag: &str, signed: &[u8], ex: &[(usize, usize)]) {
        let chunks = png_chunks(signed);
        let c = chunks.iter().find(|(_, _, t)| t == b"caBX").map(|(o, l, _)| (*o, o + l)).unwrap_or((0, 0));
        common_mutations(run, tag, signed, "image/png", ex, c);
        for (o, _, _) in &chunks {
            if *o > c.0 && *o < c.1 {
                continue;
            }
            let mut ch = vec![0, 0, 0, 4];
            ch.extend_from_slice(b"teXt");
            ch.extend_from_slice(b"evil");
            ch.extend_from_slice(&[0, 0, 0, 0]);
            let mut m = signed[..*o].to_vec();
            m.extend_from_slice(&ch);
            m.extend_from_slice(&signed[*o..]);
            run.expect_detected(&format!("{tag}.inserted_chunk_accepted"), format!("{tag}: ancillary chunk inserted at {o}"), &m, "image/png");
        }
    }

    #[test]
    fn c01_tamper_signed_assets_end_to_end() {
        let mut run = Run { evals: 0, nontrivial: 0, counts: std::collections::BTreeMap::new() };
        let compress = r#"{"core": {"prefer_compress_manifests": true}}"#;
        let mut described = Vec::new();
        for (file, mime, settings, tag) in [
            ("IMG_0003.jpg", "image/jpeg", None, "jpg.datahash"),
            ("IMG_0003.jpg", "image/jpeg", Some(compress), "jpg.boxhash"),
            ("libpng-test.png", "image/png", None, "png.datahash"),
            ("libpng-test.png", "image/png", Some(compress), "png.boxhash"),
        ] {
            let Ok(bytes) = std::fs::read(fixture_path(file)) else { continue };
            let signed = match sign(&bytes, mime, settings) {
                Ok(s) => s,
                Err(e) => {
                    println!("VERIF-B-SAMPLE {tag}: signing failed: {e}");
                    continue;
                }
            };
            let (state, json) = match read(&signed, mime) {
                Ok(x) => x,
                Err(e) => {
                    println!("VERIF-B-SAMPLE {tag}: reading the signed asset failed: {e}");
                    continue;
                }
            };
            if state == ValidationState::Invalid {
                println!("VERIF-B-SAMPLE {tag}: freshly signed asset is Invalid - skipped");
                continue;
            }
            let ex = exclusions(&json);
            described.push(format!("{tag}: {} bytes, state {state:?}, signed exclusions {ex:?}, box hash {}", signed.len(), json.contains("c2pa.hash.boxes")));
            if mime == "image/jpeg" {
                jpeg_mutations(&mut run, tag, &signed, &ex);
            } else {
                png_mutations(&mut run, tag, &signed, &ex);
            }
        }
        for d in &described {
            println!("VERIF-B-SAMPLE {d}");
        }
        println!("VERIF-B-SAMPLE violation classes this run: {:?}", run.counts);
        println!("VERIF-B unit=claim test=c01_tamper_signed_assets_end_to_end evaluations={} nontrivial={} exhaustive=true domain=assets signed by the SDK (IMG_0003.jpg, libpng-test.png; data hash and box hash) x mutations outside the signed exclusions: bit flips (first 64 bytes, a 60-point grid, container edges), appends and truncations of 1/16/37 bytes, a foreign and three C2PA-like segments / an ancillary chunk inserted at every structural boundary, every header segment deleted", run.evals, run.nontrivial);
    }

    // the same byte-level mutation family (flips on a grid and at the edges of the manifest region, appends,
    // truncations) on every other writable format with a fixture, signed with its default binding
    #[test]
    fn c01_tamper_signed_assets_other_formats() {
        use crate::{asset_io::HashBlockObjectType, jumbf_io::get_assetio_handler};
        let mut run = Run { evals: 0, nontrivial: 0, counts: std::collections::BTreeMap::new() };
        let mut described = Vec::new();
        for (file, mime, ext, tag) in [
            ("sample1.gif", "image/gif", "gif", "gif"),
            ("test.tiff", "image/tiff", "tif", "tiff"),
            ("sample1.wav", "audio/wav", "wav", "wav"),
            ("test.webp", "image/webp", "webp", "webp"),
            ("sample1.mp3", "audio/mpeg", "mp3", "mp3"),
            ("sample1.svg", "image/svg+xml", "svg", "svg"),
            ("sample1.jxl", "image/jxl", "jxl", "jxl"),
            ("sample1.flac", "audio/flac", "flac", "flac"),
            ("video1_no_manifest.mp4", "video/mp4", "mp4", "mp4"),
            ("sample1.heic", "image/heic", "heic", "heic"),
        ] {
            let Ok(bytes) = std::fs::read(fixture_path(file)) else { continue };
            if bytes.is_empty() {
                continue;
            }
            let signed = match sign(&bytes, mime, None) {
                Ok(s) => s,
                Err(e) => {
                    println!("VERIF-B-SAMPLE {tag}: signing failed: {e}");
                    continue;
                }
            };
            let state = match read(&signed, mime) {
                Ok((s, _)) => s,
                Err(e) => {
                    println!("VERIF-B-SAMPLE {tag}: reading the signed asset failed: {e}");
                    continue;
                }
            };
            if state == ValidationState::Invalid {
                println!("VERIF-B-SAMPLE {tag}: freshly signed asset is Invalid - skipped");
                continue;
            }
            // the manifest region as the handler reports it
            let region = get_assetio_handler(ext)
                .and_then(|h| h.get_writer(ext))
                .and_then(|w| w.get_object_locations_from_stream(&mut Cursor::new(signed.clone())).ok())
                .map(|locs| {
                    let cai: Vec<_> = locs.iter().filter(|l| l.htype == HashBlockObjectType::Cai).collect();
                    let a = cai.iter().map(|l| l.offset).min().unwrap_or(0);
                    let b = cai.iter().map(|l| l.offset + l.length).max().unwrap_or(0);
                    (a, b)
                })
                .unwrap_or((0, 0));
            // BMFF: the C2PA BMFF hash itself excludes the ftyp, uuid(c2pa), free, skip and mfra top-level boxes
            // (signed xpath exclusions); bytes in those boxes are outside the scope of the property
            let mut ex: Vec<(usize, usize)> = Vec::new();
            if ext == "mp4" || ext == "heic" {
                let mut pos = 0usize;
                while pos + 8 <= signed.len() {
                    let mut size = u32::from_be_bytes([signed[pos], signed[pos + 1], signed[pos + 2], signed[pos + 3]]) as usize;
                    let ty = &signed[pos + 4..pos + 8];
                    if size == 1 && pos + 16 <= signed.len() {
                        size = u64::from_be_bytes([signed[pos + 8], signed[pos + 9], signed[pos + 10], signed[pos + 11], signed[pos + 12], signed[pos + 13], signed[pos + 14], signed[pos + 15]]) as usize;
                    }
                    if size == 0 {
                        size = signed.len() - pos;
                    }
                    if size < 8 {
                        break;
                    }
                    if [&b"ftyp"[..], &b"uuid"[..], &b"free"[..], &b"skip"[..], &b"mfra"[..]].contains(&ty) {
                        ex.push((pos, size));
                    }
                    pos += size;
                }
            }
            described.push(format!("{tag}: {} bytes, state {state:?}, manifest region {region:?}, boxes excluded by the binding {ex:?}", signed.len()));
            common_mutations(&mut run, &format!("{tag}.default_binding"), &signed, mime, &ex, region);
        }
        for d in &described {
            println!("VERIF-B-SAMPLE {d}");
        }
        println!("VERIF-B-SAMPLE violation classes this run: {:?}", run.counts);
        println!("VERIF-B unit=claim test=c01_tamper_signed_assets_other_formats evaluations={} nontrivial={} exhaustive=true domain=fixtures of GIF, TIFF, WAV, WebP, MP3, SVG, JPEG XL, FLAC, MP4, HEIC signed by the SDK x bit flips (first 64 bytes, a 60-point grid, edges of the manifest region), appends and truncations of 1/16/37 bytes, all outside the manifest region", run.evals, run.nontrivial);
    }
}
