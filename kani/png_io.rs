// unit png_io: harnesses for sdk/src/asset_handlers/png_io.rs (included by the cfg(kani) hook at the end of that file)
#[allow(unused_imports)]
use super::*;
