// unit png_io: sdk/src/asset_handlers/png_io.rs (included by the cfg(kani) hook at the end of that file)
// C12: for every stream the PNG handler accepts, the box map is ordered by offset, non-overlapping, inside the file,
// and covers every byte of the file (the C2PA chunk being one of the boxes).
#[allow(unused_imports)]
use super::*;

// the contract, shared by all box-map checks: Ok(()) or the violated clause
fn box_map_contract(boxes: &[BoxMap], file_len: u64) -> std::result::Result<(), &'static str> {
    let mut pos = 0u64;
    for b in boxes {
        if b.range_start < pos {
            return Err("unordered_or_overlapping");
        }
        if b.range_start > pos {
            return Err("gap_between_boxes");
        }
        let end = match b.range_start.checked_add(b.range_len) {
            Some(e) => e,
            None => return Err("overflow"),
        };
        if end > file_len {
            return Err("outside_file");
        }
        pos = end;
    }
    if pos != file_len {
        return Err("trailing_bytes_uncovered");
    }
    Ok(())
}

fn chunk(name: &[u8; 4], data_len: usize) -> Vec<u8> {
    let mut v = Vec::new();
    v.extend_from_slice(&(data_len as u32).to_be_bytes());
    v.extend_from_slice(name);
    v.extend(std::iter::repeat(0xabu8).take(data_len));
    v.extend_from_slice(&[1, 2, 3, 4]); // crc (not checked by the scanner)
    v
}

#[test]
fn c12_png_box_map_small_grammar() {
    let thorough = std::env::var("VERIF_B_TIER").map(|t| t == "thorough").unwrap_or(false);
    let types: [&[u8; 4]; 6] = [b"IHDR", b"IDAT", b"caBX", b"iTXt", b"IEND", b"zzzz"];
    let max_chunks = if thorough { 4 } else { 3 };
    let mut evals = 0usize;
    let mut nontrivial = 0usize;
    let mut accepted = 0usize;
    let mut counts: std::collections::BTreeMap<String, usize> = std::collections::BTreeMap::new();
    let mut seqs: Vec<Vec<(usize, usize)>> = vec![vec![]];
    for _ in 0..max_chunks {
        let mut next = Vec::new();
        for s in &seqs {
            for t in 0..types.len() {
                for dl in 0..=2usize {
                    let mut s2 = s.clone();
                    s2.push((t, dl));
                    next.push(s2);
                }
            }
        }
        seqs.extend(next.clone());
        seqs.sort();
        seqs.dedup();
    }
    for s in &seqs {
        if s.is_empty() {
            continue;
        }
        let mut file: Vec<u8> = PNG_ID.to_vec();
        for (t, dl) in s {
            file.extend(chunk(types[*t], *dl));
        }
        for trailing in 0..=3usize {
            let mut f2 = file.clone();
            f2.extend(std::iter::repeat(0x55u8).take(trailing));
            // the full file and (quick: a few; thorough: all) truncation points
            let cuts: Vec<usize> = if thorough { (8..=f2.len()).collect() } else { vec![f2.len(), f2.len().saturating_sub(1), f2.len().saturating_sub(5), 8 + (f2.len() - 8) / 2] };
            for cut in cuts {
                let bytes = &f2[..cut];
                evals += 1;
                let mut cur = Cursor::new(bytes.to_vec());
                let got = std::panic::catch_unwind(std::panic::AssertUnwindSafe(|| PngIO {}.get_box_map(&mut cur)));
                let key: Option<String> = match got {
                    Err(_) => Some("box_map.png.panic".to_string()),
                    Ok(Err(_)) => None, // rejected input: nothing to check
                    Ok(Ok(boxes)) => {
                        accepted += 1;
                        if trailing > 0 || cut != f2.len() {
                            nontrivial += 1;
                        }
                        match box_map_contract(&boxes, bytes.len() as u64) {
                            Ok(()) => None,
                            Err(c) => Some(format!("box_map.png.{c}")),
                        }
                    }
                };
                if let Some(k) = key {
                    let c = counts.entry(k.clone()).or_insert(0);
                    *c += 1;
                    if *c <= 3 {
                        println!("VERIF-B-VIOLATION key={k} input=chunks={:?} trailing={trailing} cut={cut} of {}", s.iter().map(|(t, dl)| (String::from_utf8_lossy(types[*t]).to_string(), *dl)).collect::<Vec<_>>(), f2.len());
                    }
                }
                // data-hash regions (second sentence of C12): the manifest region lies within the file and overlaps no other region
                // (only when the scanner sees the caBX chunk, i.e. it comes before the first IEND: otherwise the handler reports
                // the layout the file will have AFTER a manifest is inserted, which is not a statement about this file)
                let first_cabx = s.iter().position(|(t, _)| types[*t] == b"caBX");
                let first_iend = s.iter().position(|(t, _)| types[*t] == b"IEND");
                if first_cabx.is_some_and(|c| first_iend.map_or(true, |e| c < e)) {
                    let mut cur = Cursor::new(bytes.to_vec());
                    let got = std::panic::catch_unwind(std::panic::AssertUnwindSafe(|| PngIO {}.get_object_locations_from_stream(&mut cur)));
                    let key2: Option<&str> = match got {
                        Err(_) => Some("object_locations.png.panic"),
                        Ok(Err(_)) => None,
                        Ok(Ok(pos)) => {
                            let n = bytes.len();
                            let cai: Vec<&HashObjectPositions> = pos.iter().filter(|p| p.htype == HashBlockObjectType::Cai).collect();
                            let others: Vec<&HashObjectPositions> = pos.iter().filter(|p| p.htype != HashBlockObjectType::Cai).collect();
                            if cai.len() != 1 {
                                Some("object_locations.png.not_one_manifest_region")
                            } else if cai[0].offset.checked_add(cai[0].length).map_or(true, |e| e > n) {
                                Some("object_locations.png.manifest_region_outside_file")
                            } else if others.iter().any(|o| o.offset.checked_add(o.length).map_or(true, |e| e > n)) {
                                Some("object_locations.png.region_outside_file")
                            } else if others.iter().any(|o| o.length > 0 && o.offset < cai[0].offset + cai[0].length && cai[0].offset < o.offset + o.length) {
                                Some("object_locations.png.manifest_region_overlaps_other_region")
                            } else {
                                None
                            }
                        }
                    };
                    evals += 1;
                    if let Some(k) = key2 {
                        let c = counts.entry(k.to_string()).or_insert(0);
                        *c += 1;
                        if *c <= 3 {
                            println!("VERIF-B-VIOLATION key={k} input=chunks={:?} trailing={trailing} cut={cut} of {}", s.iter().map(|(t, dl)| (String::from_utf8_lossy(types[*t]).to_string(), *dl)).collect::<Vec<_>>(), f2.len());
                        }
                    }
                }
            }
        }
    }
    println!("VERIF-B-SAMPLE chunks=[IHDR/1, caBX/2, IEND/0] trailing=0 -> boxes PNGh,IHDR,C2PA,IEND cover the file");
    println!("VERIF-B-SAMPLE violation classes this run: {:?} (accepted streams: {accepted})", counts);
    println!("VERIF-B unit=png_io test=c12_png_box_map_small_grammar evaluations={evals} nontrivial={nontrivial} exhaustive=true domain=PNG signature + 1..={max_chunks} chunks with type in {{IHDR,IDAT,caBX,iTXt,IEND,zzzz}} and 0..=2 data bytes x 0..=3 trailing bytes x truncation points");
}

// sidecar: the whole file is the manifest container
#[test]
fn c12_sidecar_box_map() {
    use crate::asset_handlers::c2pa_io::C2paIO;
    let mut evals = 0usize;
    let mut viol = 0usize;
    for len in 0..=64usize {
        let mut cur = Cursor::new(vec![7u8; len]);
        evals += 1;
        match (C2paIO {}).get_box_map(&mut cur) {
            Ok(b) if b.len() == 1 && b[0].names == vec![C2PA_BOXHASH.to_string()] => {}
            _ => {
                viol += 1;
                println!("VERIF-B-VIOLATION key=box_map.sidecar.not_single_c2pa_box input=len={len}");
            }
        }
    }
    println!("VERIF-B unit=png_io test=c12_sidecar_box_map evaluations={evals} nontrivial={} exhaustive=true domain=sidecar streams of length 0..=64; violations={viol}", evals - 1);
}

// real fixture files of the other box-hash formats through their handlers: as-is, truncated by 1 byte, with bytes appended
#[test]
fn c12_fixture_box_maps() {
    use crate::jumbf_io::get_assetio_handler;
    let files = [("CA.jpg", "jpg"), ("C.jpg", "jpg"), ("sample1.gif", "gif"), ("libpng-test.png", "png"), ("sample1.jxl", "jxl")];
    let mut evals = 0usize;
    let mut nontrivial = 0usize;
    let mut counts: std::collections::BTreeMap<String, usize> = std::collections::BTreeMap::new();
    for (name, ext) in files {
        let path = crate::utils::test::fixture_path(name);
        let Ok(bytes) = std::fs::read(&path) else { continue };
        let Some(h) = get_assetio_handler(ext) else { continue };
        let Some(bh) = h.asset_box_hash_ref() else { continue };
        for append in [0usize, 1, 16] {
            let mut b2 = bytes.clone();
            b2.extend(std::iter::repeat(0x55u8).take(append));
            evals += 1;
            if append > 0 {
                nontrivial += 1;
            }
            let mut cur = Cursor::new(b2.clone());
            if let Ok(boxes) = bh.get_box_map(&mut cur) {
                if let Err(c) = box_map_contract(&boxes, b2.len() as u64) {
                    let k = format!("box_map.{ext}.{c}");
                    let cnt = counts.entry(k.clone()).or_insert(0);
                    *cnt += 1;
                    if *cnt <= 2 {
                        println!("VERIF-B-VIOLATION key={k} input=fixture {name} with {append} bytes appended");
                    }
                }
            }
        }
    }
    println!("VERIF-B-SAMPLE violation classes this run: {:?}", counts);
    println!("VERIF-B unit=png_io test=c12_fixture_box_maps evaluations={evals} nontrivial={nontrivial} exhaustive=false domain=fixture files CA.jpg C.jpg sample1.gif libpng-test.png sample1.jxl x {{as is, +1 byte, +16 bytes}}");
}


// JPEG XL container grammar: signature box, ftyp, then up to 3 boxes of 8 types with 0..=2 payload bytes (the last one
// optionally with size 0 = "to the end of the file"), 0..=2 trailing bytes; same contract as for PNG
#[test]
fn c12_jxl_box_map_small_grammar() {
    use crate::jumbf_io::get_assetio_handler;
    let Some(h) = get_assetio_handler("jxl") else { return };
    let Some(bh) = h.asset_box_hash_ref() else { return };
    let types: [&[u8; 4]; 8] = [b"jxll", b"jxlc", b"jxlp", b"Exif", b"xml ", b"jumb", b"brob", b"free"];
    let mk = |ty: &[u8; 4], payload: usize, to_eof: bool| -> Vec<u8> {
        let mut v = Vec::new();
        v.extend_from_slice(&(if to_eof { 0u32 } else { 8 + payload as u32 }).to_be_bytes());
        v.extend_from_slice(ty);
        v.extend(std::iter::repeat(0x11u8).take(payload));
        v
    };
    let mut evals = 0usize;
    let mut nontrivial = 0usize;
    let mut counts: std::collections::BTreeMap<String, usize> = std::collections::BTreeMap::new();
    let mut seqs: Vec<Vec<(usize, usize)>> = vec![vec![]];
    for _ in 0..3 {
        let mut next = Vec::new();
        for s in &seqs {
            for t in 0..types.len() {
                for pl in 0..=2usize {
                    let mut s2 = s.clone();
                    s2.push((t, pl));
                    next.push(s2);
                }
            }
        }
        seqs.extend(next);
        seqs.sort();
        seqs.dedup();
    }
    for s in &seqs {
        for last_to_eof in [false, true] {
            if last_to_eof && s.is_empty() {
                continue;
            }
            for trailing in 0..=2usize {
                if last_to_eof && trailing > 0 {
                    continue;
                }
                let mut f: Vec<u8> = vec![0x00, 0x00, 0x00, 0x0c, 0x4a, 0x58, 0x4c, 0x20, 0x0d, 0x0a, 0x87, 0x0a];
                f.extend_from_slice(&20u32.to_be_bytes());
                f.extend_from_slice(b"ftypjxl \0\0\0\0jxl ");
                for (i, (t, pl)) in s.iter().enumerate() {
                    f.extend(mk(types[*t], *pl, last_to_eof && i + 1 == s.len()));
                }
                f.extend(std::iter::repeat(0x55u8).take(trailing));
                evals += 1;
                let mut cur = Cursor::new(f.clone());
                let got = std::panic::catch_unwind(std::panic::AssertUnwindSafe(|| bh.get_box_map(&mut cur)));
                let key: Option<String> = match got {
                    Err(_) => Some("box_map.jxl.panic".to_string()),
                    Ok(Err(_)) => None,
                    Ok(Ok(boxes)) => {
                        nontrivial += 1;
                        match box_map_contract(&boxes, f.len() as u64) {
                            Ok(()) => None,
                            Err(c) if s.is_empty() => Some(format!("box_map.jxl.{c}.ftyp_is_last_box")),
                            Err(c) => Some(format!("box_map.jxl.{c}")),
                        }
                    }
                };
                if let Some(k) = key {
                    let c = counts.entry(k.clone()).or_insert(0);
                    *c += 1;
                    if *c <= 3 {
                        println!("VERIF-B-VIOLATION key={k} input=boxes after ftyp={:?} last_to_eof={last_to_eof} trailing={trailing}", s.iter().map(|(t, pl)| (String::from_utf8_lossy(types[*t]).to_string(), *pl)).collect::<Vec<_>>());
                    }
                }
            }
        }
    }
    println!("VERIF-B-SAMPLE violation classes this run: {:?}", counts);
    println!("VERIF-B unit=png_io test=c12_jxl_box_map_small_grammar evaluations={evals} nontrivial={nontrivial} exhaustive=true domain=JPEG XL signature + ftyp + 0..=3 boxes over {{jxll,jxlc,jxlp,Exif,xml ,jumb,brob,free}} with 0..=2 payload bytes, last box optionally open-ended, 0..=2 trailing bytes");
}


// JPEG grammar: SOI, up to 4 header segments (APP0, APP1, two kinds of APP11 'JP' segments - the C2PA store and a
// foreign box instance -, DQT, COM), then optionally SOS + entropy-coded bytes (with a stuffed 0xFF00 and a restart
// marker) + EOI, 0..=2 trailing bytes; same contract as for PNG
#[test]
fn c12_jpeg_box_map_small_grammar() {
    use crate::jumbf_io::get_assetio_handler;
    let Some(h) = get_assetio_handler("jpg") else { return };
    let Some(bh) = h.asset_box_hash_ref() else { return };
    let seg = |marker: u8, payload: &[u8]| -> Vec<u8> {
        let mut v = vec![0xff, marker];
        v.extend_from_slice(&((payload.len() + 2) as u16).to_be_bytes());
        v.extend_from_slice(payload);
        v
    };
    let app11 = |en: u16, z: u32, c2pa: bool| -> Vec<u8> {
        let mut p = b"JP".to_vec();
        p.extend_from_slice(&en.to_be_bytes());
        p.extend_from_slice(&z.to_be_bytes());
        p.extend_from_slice(&40u32.to_be_bytes());
        p.extend_from_slice(b"jumb");
        p.extend_from_slice(&32u32.to_be_bytes());
        p.extend_from_slice(b"jumd");
        p.extend_from_slice(if c2pa { b"c2pa" } else { b"xxxx" });
        p.extend_from_slice(&[0u8; 20]);
        p
    };
    let kinds: Vec<(&str, Vec<u8>)> = vec![
        ("APP0", seg(0xe0, b"JFIF\0\x01\x01\0\0\x01\0\x01\0\0")),
        ("APP1", seg(0xe1, b"Exif\0\0ab")),
        ("C2PA#1", seg(0xeb, &app11(1, 1, true))),
        ("C2PA#2", seg(0xeb, &app11(1, 2, true))),
        ("APP11other", seg(0xeb, &app11(7, 1, false))),
        ("DQT", seg(0xdb, &[0u8; 5])),
        ("COM", seg(0xfe, b"hi")),
    ];
    let mut evals = 0usize;
    let mut nontrivial = 0usize;
    let mut counts: std::collections::BTreeMap<String, usize> = std::collections::BTreeMap::new();
    let mut seqs: Vec<Vec<usize>> = vec![vec![]];
    for _ in 0..4 {
        let mut next = Vec::new();
        for s in &seqs {
            for k in 0..kinds.len() {
                let mut s2 = s.clone();
                s2.push(k);
                next.push(s2);
            }
        }
        seqs.extend(next);
        seqs.sort();
        seqs.dedup();
    }
    for s in &seqs {
        for with_scan in [true, false] {
            // trailing: 0..=2 stray bytes after the image; 3 = a second picture (SOI DQT EOI) stored after the first one
            // (multi-picture files: previews, gain maps), which the scanner walks like the first
            for trailing in 0..=3usize {
                if trailing == 3 && (!with_scan || s.len() > 2) {
                    continue;
                }
                let mut f = vec![0xffu8, 0xd8];
                for k in s {
                    f.extend_from_slice(&kinds[*k].1);
                }
                if with_scan {
                    f.extend(seg(0xc0, &[8, 0, 1, 0, 1, 1, 1, 0x11, 0]));
                    f.extend(seg(0xda, &[1, 1, 0, 0, 0x3f, 0]));
                    f.extend_from_slice(&[0x12, 0xff, 0x00, 0x34, 0xff, 0xd0, 0x56]);
                    f.extend_from_slice(&[0xff, 0xd9]);
                }
                if trailing == 3 {
                    f.extend_from_slice(&[0xff, 0xd8]);
                    f.extend(seg(0xdb, &[0u8; 5]));
                    f.extend_from_slice(&[0xff, 0xd9]);
                } else {
                    f.extend(std::iter::repeat(0x55u8).take(trailing));
                }
                evals += 1;
                let mut cur = Cursor::new(f.clone());
                let got = std::panic::catch_unwind(std::panic::AssertUnwindSafe(|| bh.get_box_map(&mut cur)));
                let key: Option<String> = match got {
                    Err(_) => Some("box_map.jpg.panic".to_string()),
                    Ok(Err(_)) => None,
                    Ok(Ok(boxes)) => {
                        nontrivial += 1;
                        if s.is_empty() && with_scan && trailing == 0 {
                            println!("VERIF-B-SAMPLE minimal JPEG ({} bytes) box map: {:?}", f.len(), boxes.iter().map(|b| (b.names[0].clone(), b.range_start, b.range_len)).collect::<Vec<_>>());
                        }
                        match box_map_contract(&boxes, f.len() as u64) {
                            Ok(()) => None,
                            Err(c) if !with_scan => Some(format!("box_map.jpg.{c}.no_scan_data")),
                            Err(c) => {
                                // restart markers are listed as boxes of their own although the SOS box already spans the
                                // whole entropy-coded segment: if that is the only problem, report it under its own class
                                let without_rst: Vec<BoxMap> = boxes.into_iter().filter(|b| !b.names[0].starts_with("RST")).collect();
                                match box_map_contract(&without_rst, f.len() as u64) {
                                    Ok(()) => Some("box_map.jpg.restart_marker_boxes_overlap_scan_box".to_string()),
                                    Err(c2) if trailing == 3 => Some(format!("box_map.jpg.second_picture.{c2}")),
                                    Err(c2) if trailing > 0 && c2 == "trailing_bytes_uncovered" => Some("box_map.jpg.trailing_bytes_uncovered".to_string()),
                                    Err(_) => Some(format!("box_map.jpg.{c}")),
                                }
                            }
                        }
                    }
                };
                if let Some(k) = key {
                    let c = counts.entry(k.clone()).or_insert(0);
                    *c += 1;
                    if *c <= 3 {
                        println!("VERIF-B-VIOLATION key={k} input=segments={:?} scan={with_scan} trailing={trailing}", s.iter().map(|k| kinds[*k].0).collect::<Vec<_>>());
                    }
                }
            }
        }
    }
    println!("VERIF-B-SAMPLE violation classes this run: {:?}", counts);
    println!("VERIF-B unit=png_io test=c12_jpeg_box_map_small_grammar evaluations={evals} nontrivial={nontrivial} exhaustive=true domain=SOI + 0..=4 header segments over 7 kinds (APP0, APP1, two C2PA APP11 segments, a foreign APP11 JP segment, DQT, COM) x with / without SOF+SOS+scan+EOI x 0..=2 trailing bytes or a second picture after EOI");
}


// GIF grammar: header + logical screen descriptor, up to 3 blocks over 5 kinds (application extension, C2PA
// application extension, comment extension, graphic control extension, image descriptor with data sub-blocks),
// optional trailer, 0..=2 trailing bytes; same contract
#[test]
fn c12_gif_box_map_small_grammar() {
    use crate::jumbf_io::get_assetio_handler;
    let Some(h) = get_assetio_handler("gif") else { return };
    let Some(bh) = h.asset_box_hash_ref() else { return };
    let sub = |d: &[u8]| -> Vec<u8> {
        let mut v = vec![d.len() as u8];
        v.extend_from_slice(d);
        v
    };
    let mut app = vec![0x21u8, 0xff, 0x0b];
    app.extend_from_slice(b"NETSCAPE2.0");
    app.extend(sub(&[1, 0, 0]));
    app.push(0);
    let mut c2pa = vec![0x21u8, 0xff, 0x0b];
    c2pa.extend_from_slice(b"C2PA_GIF");
    c2pa.extend_from_slice(&[0x01, 0x00, 0x00]);
    c2pa.extend(sub(&[9, 9, 9, 9]));
    c2pa.push(0);
    let mut com = vec![0x21u8, 0xfe];
    com.extend(sub(b"hi"));
    com.push(0);
    let gce = vec![0x21u8, 0xf9, 0x04, 0, 0, 0, 0, 0];
    let mut img = vec![0x2cu8, 0, 0, 0, 0, 1, 0, 1, 0, 0, 2];
    img.extend(sub(&[0x4c, 0x01]));
    img.push(0);
    let kinds: Vec<(&str, Vec<u8>)> = vec![("app", app), ("c2pa", c2pa), ("comment", com), ("gce", gce), ("image", img)];
    let mut evals = 0usize;
    let mut nontrivial = 0usize;
    let mut counts: std::collections::BTreeMap<String, usize> = std::collections::BTreeMap::new();
    let mut seqs: Vec<Vec<usize>> = vec![vec![]];
    for _ in 0..3 {
        let mut next = Vec::new();
        for s in &seqs {
            for k in 0..kinds.len() {
                let mut s2 = s.clone();
                s2.push(k);
                next.push(s2);
            }
        }
        seqs.extend(next);
        seqs.sort();
        seqs.dedup();
    }
    for s in &seqs {
        for trailer in [true, false] {
            for trailing in 0..=2usize {
                let mut f = b"GIF89a".to_vec();
                f.extend_from_slice(&[1, 0, 1, 0, 0, 0, 0]);
                for k in s {
                    f.extend_from_slice(&kinds[*k].1);
                }
                if trailer {
                    f.push(0x3b);
                }
                f.extend(std::iter::repeat(0x55u8).take(trailing));
                evals += 1;
                let mut cur = Cursor::new(f.clone());
                let got = std::panic::catch_unwind(std::panic::AssertUnwindSafe(|| bh.get_box_map(&mut cur)));
                let key: Option<String> = match got {
                    Err(_) => Some("box_map.gif.panic".to_string()),
                    Ok(Err(_)) => None,
                    Ok(Ok(boxes)) => {
                        nontrivial += 1;
                        if s.len() == 1 && s[0] == 4 && trailer && trailing == 0 {
                            println!("VERIF-B-SAMPLE one-image GIF ({} bytes) box map: {:?}", f.len(), boxes.iter().map(|b| (b.names[0].clone(), b.range_start, b.range_len)).collect::<Vec<_>>());
                        }
                        match box_map_contract(&boxes, f.len() as u64) {
                            Ok(()) => None,
                            Err(c) => Some(format!("box_map.gif.{c}")),
                        }
                    }
                };
                if let Some(k) = key {
                    let c = counts.entry(k.clone()).or_insert(0);
                    *c += 1;
                    if *c <= 3 {
                        println!("VERIF-B-VIOLATION key={k} input=blocks={:?} trailer={trailer} trailing={trailing}", s.iter().map(|k| kinds[*k].0).collect::<Vec<_>>());
                    }
                }
            }
        }
    }
    println!("VERIF-B-SAMPLE violation classes this run: {:?}", counts);
    println!("VERIF-B unit=png_io test=c12_gif_box_map_small_grammar evaluations={evals} nontrivial={nontrivial} exhaustive=true domain=GIF89a header + 0..=3 blocks over {{application ext, C2PA application ext, comment ext, graphic control ext, image}} x with / without trailer x 0..=2 trailing bytes");
}
