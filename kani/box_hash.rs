// unit box_hash: harnesses for sdk/src/assertions/box_hash.rs (included by the cfg(kani) hook at the end of that file)
#[allow(unused_imports)]
use super::*;
