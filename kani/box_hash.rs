// unit box_hash: sdk/src/assertions/box_hash.rs (included by the cfg(kani) hook at the end of that file)
// C01 (box-hash binding) / C12 (format-independent half): BoxHash::verify_stream_hash_with_progress returns Ok only if
//   every source box (from the handler's box map) is matched, in order, by a name of the signed assertion,
//   every signed entry that is neither the C2PA box nor declared `excluded` hash-compares equal to the digest of the
//   span from its first to its last matched box, and no source box is left over.
#[allow(unused_imports)]
use super::*;

struct FixedMap(Vec<(String, u64, u64)>);
impl AssetBoxHash for FixedMap {
    fn get_box_map(&self, _r: &mut dyn CAIRead) -> Result<Vec<BoxMap>> {
        Ok(self
            .0
            .iter()
            .map(|(n, s, l)| BoxMap { names: vec![n.clone()], alg: None, hash: ByteBuf::from(Vec::new()), excluded: None, pad: ByteBuf::from(Vec::new()), range_start: *s, range_len: *l })
            .collect())
    }
}

fn entry(names: &[&str], hash: Vec<u8>, excluded: Option<bool>) -> BoxMap {
    BoxMap { names: names.iter().map(|s| s.to_string()).collect(), alg: Some("sha256".to_string()), hash: ByteBuf::from(hash), excluded, pad: ByteBuf::from(Vec::new()), range_start: 0, range_len: 0 }
}

// the specification (statement + the documented PNGh legacy rule), executable
fn oracle(signed: &[BoxMap], source: &[(String, u64, u64)], data: &[u8]) -> bool {
    if signed.is_empty() || source.is_empty() {
        return false;
    }
    let mut si = 0usize;
    if source[0].0 == "PNGh" && signed[0].names.first().is_some_and(|n| n != "PNGh") {
        si = 1;
    }
    for bm in signed {
        let first = si;
        for name in &bm.names {
            if si >= source.len() || &source[si].0 != name {
                return false;
            }
            si += 1;
        }
        let is_c2pa = bm.names.first().is_some_and(|n| n == C2PA_BOXHASH);
        if is_c2pa && bm.names.len() != 1 {
            return false;
        }
        if is_c2pa || bm.excluded.unwrap_or(false) {
            continue;
        }
        if bm.names.is_empty() {
            return false;
        }
        let a = source[first].1 as usize;
        let b = (source[si - 1].1 + source[si - 1].2) as usize;
        if b > data.len() || bm.hash.to_vec() != hash_by_alg("sha256", &data[a..b], None) {
            return false;
        }
    }
    si == source.len() // every source box is covered by the signed assertion
}

fn honest(source: &[(String, u64, u64)], data: &[u8], grouping: &[usize]) -> Vec<BoxMap> {
    let mut out = Vec::new();
    let mut i = 0usize;
    for &g in grouping {
        if i >= source.len() {
            break;
        }
        let mut j = (i + g).min(source.len());
        // the C2PA box is always alone
        if source[i].0 == C2PA_BOXHASH {
            j = i + 1;
        } else if let Some(p) = (i..j).find(|k| source[*k].0 == C2PA_BOXHASH) {
            j = p;
        }
        let names: Vec<&str> = source[i..j].iter().map(|s| s.0.as_str()).collect();
        let a = source[i].1 as usize;
        let b = (source[j - 1].1 + source[j - 1].2) as usize;
        out.push(entry(&names, hash_by_alg("sha256", &data[a..b], None), None));
        i = j;
    }
    out
}

#[test]
fn c01_box_hash_verify_matches_oracle() {
    let data: Vec<u8> = (0u8..16).map(|i| i.wrapping_mul(29).wrapping_add(3)).collect();
    let names = ["A", "B", "C2PA", "PNGh"];
    let mut evals = 0usize;
    let mut nontrivial = 0usize;
    let mut counts: std::collections::BTreeMap<String, usize> = std::collections::BTreeMap::new();
    // source layouts: 1..=4 boxes, each 2 bytes, optional 1-byte gap before the second box, optional trailing bytes
    let mut layouts: Vec<Vec<(String, u64, u64)>> = Vec::new();
    for n in 1..=4usize {
        let combos = names.len().pow(n as u32);
        for c in 0..combos {
            let mut idx = c;
            let mut seq = Vec::new();
            for _ in 0..n {
                seq.push(names[idx % names.len()]);
                idx /= names.len();
            }
            if seq.iter().filter(|s| **s == "C2PA").count() > 1 || seq.iter().skip(1).any(|s| *s == "PNGh") {
                continue;
            }
            for gap in [0u64, 1] {
                let mut pos = 0u64;
                let mut v = Vec::new();
                for (k, s) in seq.iter().enumerate() {
                    if k == 1 {
                        pos += gap;
                    }
                    v.push((s.to_string(), pos, 2u64));
                    pos += 2;
                }
                layouts.push(v);
            }
        }
    }
    for source in &layouts {
        for grouping in [vec![1usize, 1, 1, 1], vec![2, 2], vec![1, 2, 1], vec![3, 1], vec![4]] {
            let base = honest(source, &data, &grouping);
            // mutations of the signed assertion (index 0 = unchanged)
            let mut variants: Vec<Vec<BoxMap>> = Vec::new();
            let clone = |v: &Vec<BoxMap>| -> Vec<BoxMap> { v.iter().map(|b| BoxMap { names: b.names.clone(), alg: b.alg.clone(), hash: b.hash.clone(), excluded: b.excluded, pad: b.pad.clone(), range_start: 0, range_len: 0 }).collect() };
            variants.push(clone(&base));
            for k in 0..base.len() {
                let mut v = clone(&base);
                v.remove(k); // a signed entry dropped: its source boxes are no longer covered
                variants.push(v);
                let mut v = clone(&base);
                let mut h = v[k].hash.to_vec();
                if !h.is_empty() {
                    h[0] ^= 1;
                }
                v[k].hash = ByteBuf::from(h); // wrong digest
                variants.push(v);
                let mut v = clone(&base);
                v[k].excluded = Some(true);
                v[k].hash = ByteBuf::from(vec![0u8; 32]); // declared excluded by the signed assertion itself
                variants.push(v);
                let mut v = clone(&base);
                v[k].names[0] = "Z".to_string();
                variants.push(v);
                if k + 1 < base.len() {
                    let mut v = clone(&base);
                    v.swap(k, k + 1);
                    variants.push(v);
                }
                let mut v = clone(&base);
                let last = v[k].names.len() - 1;
                v[k].names.remove(last); // a name dropped inside an entry
                if !v[k].names.is_empty() {
                    variants.push(v);
                }
            }
            let mut v = clone(&base);
            v.push(entry(&["Q"], vec![0u8; 32], None));
            variants.push(v);
            if source[0].0 == "PNGh" && base.len() > 1 && base[0].names.len() == 1 {
                let mut v = clone(&base);
                v.remove(0); // legacy assertion without the PNGh entry
                variants.push(v);
            }
            for signed in variants {
                if signed.is_empty() {
                    continue;
                }
                evals += 1;
                let expect = oracle(&signed, source, &data);
                if expect {
                    nontrivial += 1;
                }
                let bh = BoxHash { boxes: signed };
                let mut cur = Cursor::new(data.clone());
                let got = std::panic::catch_unwind(std::panic::AssertUnwindSafe(|| bh.verify_stream_hash_with_progress(&mut cur, None, &FixedMap(source.clone()), &mut |_, _| Ok(()))));
                let key = match got {
                    Err(_) => Some("box_hash.panic"),
                    Ok(r) => {
                        if r.is_ok() == expect {
                            None
                        } else if r.is_ok() {
                            // which clause of the oracle is violated by the acceptance?
                            let flat: usize = bh.boxes.iter().map(|b| b.names.len()).sum();
                            if flat < source.len() { Some("box_hash.accepts_uncovered_source_box") } else { Some("box_hash.accepts_mismatch") }
                        } else {
                            Some("box_hash.rejects_valid_assertion")
                        }
                    }
                };
                if let Some(k) = key {
                    let c = counts.entry(k.to_string()).or_insert(0);
                    *c += 1;
                    if *c <= 3 {
                        println!("VERIF-B-VIOLATION key={k} input=source={:?} signed_names={:?} excluded={:?}", source, bh.boxes.iter().map(|b| b.names.clone()).collect::<Vec<_>>(), bh.boxes.iter().map(|b| b.excluded).collect::<Vec<_>>());
                    }
                }
            }
        }
    }
    println!("VERIF-B-SAMPLE source=[A@0+2,B@2+2] signed=[[A]] (B uncovered) -> oracle false");
    println!("VERIF-B-SAMPLE violation classes this run: {:?}", counts);
    println!("VERIF-B unit=box_hash test=c01_box_hash_verify_matches_oracle evaluations={evals} nontrivial={nontrivial} exhaustive=true domain={} source layouts (1..=4 boxes over {{A,B,C2PA,PNGh}}, optional gap) x 5 groupings x mutations {{none, drop entry, wrong digest, excluded, rename, swap, drop name, extra entry, legacy PNGh}}", layouts.len());
}
