// unit cose_sign: harnesses for sdk/src/crypto/cose/sign.rs (included by the cfg(kani) hook at the end of that file)
#[allow(unused_imports)]
use super::*;
