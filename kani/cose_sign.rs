// unit cose_sign: sdk/src/crypto/cose/sign.rs (included by the cfg(kani) hook at the end of that file)
// C14 (COSE half): pad_cose_sig(sign1, Some(end)) for EVERY reserve size from the unpadded size up to +70000:
//   Ok(v)  => |v| == end                    (padding is exact)
//   end >= unpadded size => Ok              (no size error for an ample reserve; monotone in the reserve)
//   never panics
// Engine B (bounded-exhaustive, native): Kani cannot stub the provided trait method to_tagged_vec and the real CBOR
// serializer over a symbolic-length pad is unbounded (DESIGN 5, C14).
#[allow(unused_imports)]
use super::*;

fn c14_run(mut base: CoseSign1, label: &str, max_extra: usize, counts: &mut std::collections::BTreeMap<String, usize>) -> (usize, usize) {
    let unpadded = base.clone().to_tagged_vec().map(|v| v.len()).unwrap_or(0);
    let mut evals = 0usize;
    let mut ok = 0usize;
    for extra in 0..=max_extra {
        let end = unpadded + extra;
        evals += 1;
        let mut s = base.clone();
        let r = std::panic::catch_unwind(std::panic::AssertUnwindSafe(|| pad_cose_sig(&mut s, Some(end))));
        let key: Option<&str> = match r {
            Err(_) => Some("cose_pad.panic"),
            Ok(Ok(v)) => {
                if v.len() == end {
                    ok += 1;
                    None
                } else {
                    Some("cose_pad.wrong_size")
                }
            }
            Ok(Err(_)) => {
                // a map entry "pad": h'' needs at least 5 bytes, the code asks for 7
                if (1..=6).contains(&extra) {
                    Some("cose_pad.margin_1_to_6_bytes")
                } else if extra <= 262 {
                    Some("cose_pad.pad_shorter_than_256")
                } else if extra >= 65543 {
                    Some("cose_pad.pad_longer_than_65535")
                } else {
                    Some("cose_pad.size_error_for_ample_reserve")
                }
            }
        };
        if let Some(k) = key {
            let c = counts.entry(k.to_string()).or_insert(0);
            *c += 1;
            if *c <= 2 {
                println!("VERIF-B-VIOLATION key={k} input={label}: unpadded={unpadded} reserve=+{extra}");
            }
        }
    }
    base.unprotected.rest.clear();
    (evals, ok)
}

#[test]
fn c14_pad_cose_sig_every_reserve() {
    let thorough = std::env::var("VERIF_B_TIER").map(|t| t == "thorough").unwrap_or(false);
    let mut counts = std::collections::BTreeMap::new();
    let mut a = CoseSign1::default();
    a.signature = vec![0x5au8; 64];
    let mut b = CoseSign1::default();
    b.signature = vec![0x5au8; 512];
    b.unprotected.rest.push((Label::Text("x5chain".to_string()), Value::Bytes(vec![1u8; 900])));
    b.unprotected.rest.push((Label::Text("sigTst2".to_string()), Value::Bytes(vec![2u8; 300])));
    let max_extra = 70000;
    let (e1, ok1) = c14_run(a, "empty unprotected header, 64-byte signature", max_extra, &mut counts);
    let (e2, ok2) = if thorough { c14_run(b, "populated unprotected header, 512-byte signature", max_extra, &mut counts) } else { c14_run(b, "populated unprotected header, 512-byte signature", 1200, &mut counts) };
    println!("VERIF-B-SAMPLE reserve +263 over the unpadded size -> exact; +300 -> exact; +65542 -> exact");
    println!("VERIF-B-SAMPLE violation classes this run: {:?}; exact results: {}", counts, ok1 + ok2);
    println!("VERIF-B unit=cose_sign test=c14_pad_cose_sig_every_reserve evaluations={} nontrivial={} exhaustive=true domain=every reserve from the unpadded size to +{max_extra} for a CoseSign1 with empty unprotected header; to +{} for a populated header", e1 + e2, ok1 + ok2, if thorough { max_extra } else { 1200 });
}
