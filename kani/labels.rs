// unit labels: sdk/src/jumbf/labels.rs (included by the cfg(kani) hook at the end of that file)
// C34: URI builders and parsers are inverse on labels without '/' and '='; ManifestParts Display and
// manifest_label_to_parts are inverse on the shapes the SDK generates.
#[allow(unused_imports)]
use super::*;

fn strings_over(alphabet: &[char], max_len: usize) -> Vec<String> {
    let mut out = vec![String::new()];
    let mut frontier = vec![String::new()];
    for _ in 0..max_len {
        let mut next = Vec::new();
        for s in &frontier {
            for c in alphabet {
                let mut t = s.clone();
                t.push(*c);
                next.push(t);
            }
        }
        out.extend(next.iter().cloned());
        frontier = next;
    }
    out
}

#[test]
fn c34_uri_round_trips() {
    let thorough = std::env::var("VERIF_B_TIER").map(|t| t == "thorough").unwrap_or(false);
    let alphabet = ['a', ':', '.', '_', '1', ' ', '-'];
    let labels: Vec<String> = strings_over(&alphabet, if thorough { 4 } else { 3 }).into_iter().filter(|s| !s.is_empty()).collect();
    let mut evals = 0usize;
    let mut nontrivial = 0usize;
    let mut counts: std::collections::BTreeMap<String, usize> = std::collections::BTreeMap::new();
    let mut bad = |k: &str, input: String, counts: &mut std::collections::BTreeMap<String, usize>| {
        let c = counts.entry(k.to_string()).or_insert(0);
        *c += 1;
        if *c <= 3 {
            println!("VERIF-B-VIOLATION key={k} input={input}");
        }
    };
    let generated = ["urn:c2pa:6f1b7a2e-0c1d-4b7e-9a3f-5d2c8e4b1a90", "urn:c2pa:6f1b7a2e-0c1d-4b7e-9a3f-5d2c8e4b1a90:acme:2_1", "acme:urn:uuid:6f1b7a2e-0c1d-4b7e-9a3f-5d2c8e4b1a90", "urn:uuid:6f1b7a2e-0c1d-4b7e-9a3f-5d2c8e4b1a90"];
    let assertion_labels = ["c2pa.actions", "c2pa.hash.data", "c2pa.ingredient.v3__2", "stds.schema-org.CreativeWork__12", "a"];
    let ms: Vec<String> = labels.iter().cloned().chain(generated.iter().map(|s| s.to_string())).collect();
    let asl: Vec<String> = if thorough { labels.iter().cloned().chain(assertion_labels.iter().map(|s| s.to_string())).collect() } else { assertion_labels.iter().map(|s| s.to_string()).chain(labels.iter().take(60).cloned()).collect() };
    for m in &ms {
        evals += 1;
        let u = to_manifest_uri(m);
        if manifest_label_from_uri(&u).as_deref() != Some(m.as_str()) {
            bad("labels.manifest_uri_round_trip", format!("{m:?}"), &mut counts);
        }
        let s = to_signature_uri(m);
        if manifest_label_from_uri(&s).as_deref() != Some(m.as_str()) || box_name_from_uri(&s).as_deref() != Some(SIGNATURE) {
            bad("labels.signature_uri_round_trip", format!("{m:?}"), &mut counts);
        }
        for a in &asl {
            evals += 1;
            nontrivial += 1;
            let au = to_assertion_uri(m, a);
            if manifest_label_from_uri(&au).as_deref() != Some(m.as_str()) || assertion_label_from_uri(&au).as_deref() != Some(a.as_str()) || box_name_from_uri(&au).as_deref() != Some(a.as_str()) {
                bad("labels.assertion_uri_round_trip", format!("manifest={m:?} assertion={a:?}"), &mut counts);
            }
            let du = to_databox_uri(m, a);
            if manifest_label_from_uri(&du).as_deref() != Some(m.as_str()) || assertion_label_from_uri(&du).as_deref() != Some(a.as_str()) {
                bad("labels.databox_uri_round_trip", format!("manifest={m:?} databox={a:?}"), &mut counts);
            }
            let vu = to_verifiable_credential_uri(m, a);
            if manifest_label_from_uri(&vu).as_deref() != Some(m.as_str()) || box_name_from_uri(&vu).as_deref() != Some(a.as_str()) {
                bad("labels.credential_uri_round_trip", format!("manifest={m:?} vc={a:?}"), &mut counts);
            }
            // relative <-> absolute
            let rel = to_relative_uri(&au);
            if to_absolute_uri(m, &rel) != au {
                bad("labels.relative_absolute_round_trip", format!("manifest={m:?} assertion={a:?} rel={rel:?}"), &mut counts);
            }
            if assertion_label_from_uri(&rel).as_deref() != Some(a.as_str()) {
                bad("labels.relative_assertion_label", format!("manifest={m:?} assertion={a:?} rel={rel:?}"), &mut counts);
            }
        }
    }
    println!("VERIF-B-SAMPLE to_assertion_uri(\"urn:c2pa:x\", \"c2pa.actions\") = {:?}", to_assertion_uri("urn:c2pa:x", "c2pa.actions"));
    println!("VERIF-B-SAMPLE violation classes this run: {:?}", counts);
    println!("VERIF-B unit=labels test=c34_uri_round_trips evaluations={evals} nontrivial={nontrivial} exhaustive=true domain=manifest labels: every non-empty string of length <= {} over {{a : . _ 1 space -}} + 4 generated shapes; assertion labels: 5 typical + {} enumerated", if thorough { 4 } else { 3 }, asl.len() - 5);
}

#[test]
fn c34_manifest_parts_round_trip() {
    let thorough = std::env::var("VERIF_B_TIER").map(|t| t == "thorough").unwrap_or(false);
    let guids = ["6f1b7a2e-0c1d-4b7e-9a3f-5d2c8e4b1a90", "a", "0"];
    let mut vendors: Vec<Option<String>> = vec![None];
    for v in strings_over(&['u', 'r', 'n', '_', '1', '-', '.'], if thorough { 3 } else { 2 }) {
        if !v.is_empty() {
            vendors.push(Some(v));
        }
    }
    vendors.push(Some("urn".to_string()));
    vendors.push(Some("c2pa".to_string()));
    vendors.push(Some("uuid".to_string()));
    vendors.push(Some("x".repeat(32)));
    let nums: Vec<Option<usize>> = std::iter::once(None).chain((0..=20usize).map(Some)).chain([Some(usize::MAX)]).collect();
    let mut evals = 0usize;
    let mut nontrivial = 0usize;
    let mut counts: std::collections::BTreeMap<String, usize> = std::collections::BTreeMap::new();
    for g in guids {
        for vendor in &vendors {
            for is_v1 in [false, true] {
                for version in &nums {
                    for reason in &nums {
                        // shapes the Display impl can express: v1 has no version/reason; a reason needs a version
                        if is_v1 && (version.is_some() || reason.is_some()) {
                            continue;
                        }
                        if version.is_none() && reason.is_some() {
                            continue;
                        }
                        evals += 1;
                        if vendor.is_some() || version.is_some() {
                            nontrivial += 1;
                        }
                        let mp = ManifestParts { guid: g.to_string(), is_v1, cgi: vendor.clone(), version: *version, reason: *reason };
                        let label = mp.to_string();
                        let key = match manifest_label_to_parts(&label) {
                            None => Some("labels.manifest_parts.unparsable"),
                            Some(p) => {
                                if p.guid == mp.guid && p.is_v1 == mp.is_v1 && p.cgi == mp.cgi && p.version == mp.version && p.reason == mp.reason {
                                    None
                                } else {
                                    Some("labels.manifest_parts.different_parts")
                                }
                            }
                        };
                        let key = match key {
                            Some(k) if vendor.as_deref() == Some("urn") || vendor.as_deref() == Some("uuid") && is_v1 => Some(format!("{k}.vendor_is_urn_keyword")),
                            Some(k) => Some(k.to_string()),
                            None => None,
                        };
                        if let Some(k) = key {
                            let c = counts.entry(k.clone()).or_insert(0);
                            *c += 1;
                            if *c <= 3 {
                                println!("VERIF-B-VIOLATION key={k} input=parts={mp:?} label={label:?} parsed={:?}", manifest_label_to_parts(&label));
                            }
                        }
                        // through a URI as well
                        let u = to_manifest_uri(&label);
                        if manifest_label_from_uri(&u).as_deref() != Some(label.as_str()) {
                            let c = counts.entry("labels.manifest_uri_round_trip".to_string()).or_insert(0);
                            *c += 1;
                            if *c <= 3 {
                                println!("VERIF-B-VIOLATION key=labels.manifest_uri_round_trip input={label:?}");
                            }
                        }
                    }
                }
            }
        }
    }
    println!("VERIF-B-SAMPLE {:?} -> {:?}", ManifestParts { guid: "g".into(), is_v1: false, cgi: Some("acme".into()), version: Some(2), reason: Some(1) }.to_string(), manifest_label_to_parts("urn:c2pa:g:acme:2_1"));
    println!("VERIF-B-SAMPLE violation classes this run: {:?}", counts);
    println!("VERIF-B unit=labels test=c34_manifest_parts_round_trip evaluations={evals} nontrivial={nontrivial} exhaustive=true domain=3 guids x {} vendors (all strings <= {} over {{u r n _ 1 - .}}, keywords, 32 chars) x v1/v2 x version,reason in {{None,0..=20,usize::MAX}}", vendors.len(), if thorough { 3 } else { 2 });
}
