// unit labels: harnesses for sdk/src/jumbf/labels.rs (included by the cfg(kani) hook at the end of that file)
#[allow(unused_imports)]
use super::*;
