// unit path_utils: harnesses for sdk/src/utils/path_utils.rs (included by the cfg(kani) hook at the end of that file)
#[allow(unused_imports)]
use super::*;
