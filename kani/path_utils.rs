// unit path_utils: sdk/src/utils/path_utils.rs (included by the cfg(kani) hook at the end of that file)
// C29 (lexical half): sanitize_archive_path
//   Ok(s)  => s is non-empty, has no backslash, is not absolute, has no component "", "." or "..", and equals the
//             input's normal components (everything between slashes except "" and ".") joined by "/"
//   Err   <=> the input is empty, contains a backslash, starts with "/", has a ".." component, or has no normal component
#[allow(unused_imports)]
use super::*;

fn c29_reference(p: &str) -> Option<String> {
    if p.is_empty() || p.contains('\\') || p.starts_with('/') {
        return None;
    }
    let mut parts: Vec<&str> = Vec::new();
    for c in p.split('/') {
        if c == ".." {
            return None;
        }
        if c.is_empty() || c == "." {
            continue;
        }
        parts.push(c);
    }
    if parts.is_empty() {
        None
    } else {
        Some(parts.join("/"))
    }
}

#[test]
fn c29_sanitize_archive_path_all_short_strings() {
    let thorough = std::env::var("VERIF_B_TIER").map(|t| t == "thorough").unwrap_or(false);
    let alphabet: [char; 6] = ['a', '.', '/', '\\', ':', '%'];
    let max_len = if thorough { 8 } else { 7 };
    let mut evals = 0usize;
    let mut nontrivial = 0usize;
    let mut counts: std::collections::BTreeMap<String, usize> = std::collections::BTreeMap::new();
    let mut cur: Vec<usize> = Vec::new();
    // odometer over all strings of length 0..=max_len
    for len in 0..=max_len {
        cur.clear();
        cur.resize(len, 0);
        loop {
            let s: String = cur.iter().map(|i| alphabet[*i]).collect();
            evals += 1;
            let expect = c29_reference(&s);
            if expect.is_some() {
                nontrivial += 1;
            }
            let got = std::panic::catch_unwind(|| sanitize_archive_path(&s));
            let key = match got {
                Err(_) => Some("sanitize_archive_path.panic"),
                Ok(r) => match (r.ok(), expect) {
                    (Some(g), Some(e)) if g == e => None,
                    (None, None) => None,
                    (Some(g), _) if g.is_empty() || g.contains('\\') || g.starts_with('/') || g.split('/').any(|c| c.is_empty() || c == "." || c == "..") => Some("sanitize_archive_path.unsafe_output"),
                    (Some(_), None) => Some("sanitize_archive_path.accepts_rejected_input"),
                    (Some(_), Some(_)) => Some("sanitize_archive_path.wrong_normal_form"),
                    (None, Some(_)) => Some("sanitize_archive_path.rejects_valid_input"),
                },
            };
            if let Some(k) = key {
                let c = counts.entry(k.to_string()).or_insert(0);
                *c += 1;
                if *c <= 3 {
                    println!("VERIF-B-VIOLATION key={k} input={s:?}");
                }
            }
            // next
            let mut i = len;
            loop {
                if i == 0 {
                    break;
                }
                i -= 1;
                cur[i] += 1;
                if cur[i] < alphabet.len() {
                    break;
                }
                cur[i] = 0;
                if i == 0 {
                    i = usize::MAX;
                    break;
                }
            }
            if len == 0 || i == usize::MAX {
                break;
            }
        }
    }
    println!("VERIF-B-SAMPLE \"a/./a//.a\" -> {:?}; \"a/../a\" -> {:?}; \"a\\\\..\" -> {:?}", sanitize_archive_path("a/./a//.a").ok(), sanitize_archive_path("a/../a").ok(), sanitize_archive_path("a\\..").ok());
    println!("VERIF-B-SAMPLE violation classes this run: {:?}", counts);
    println!("VERIF-B unit=path_utils test=c29_sanitize_archive_path_all_short_strings evaluations={evals} nontrivial={nontrivial} exhaustive=true domain=every string of length 0..={max_len} over {{a . / \\ : %}}");
}
