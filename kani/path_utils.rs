// unit path_utils: sdk/src/utils/path_utils.rs (included by the cfg(kani) hook at the end of that file)
// C29 (lexical half): sanitize_archive_path
//   Ok(s)  => s is non-empty, has no backslash, is not absolute, has no component "", "." or "..", and equals the
//             input's normal components (everything between slashes except "" and ".") joined by "/"
//   Err   <=> the input is empty, contains a backslash, starts with "/", has a ".." component, or has no normal component
#[allow(unused_imports)]
use super::*;

fn c29_reference(p: &str) -> Option<String> {
    if p.is_empty() || p.contains('\\') || p.starts_with('/') {
        return None;
    }
    let mut parts: Vec<&str> = Vec::new();
    for c in p.split('/') {
        if c == ".." {
            return None;
        }
        if c.is_empty() || c == "." {
            continue;
        }
        parts.push(c);
    }
    if parts.is_empty() {
        None
    } else {
        Some(parts.join("/"))
    }
}

#[test]
fn c29_sanitize_archive_path_all_short_strings() {
    let thorough = std::env::var("VERIF_B_TIER").map(|t| t == "thorough").unwrap_or(false);
    let alphabet: [char; 6] = ['a', '.', '/', '\\', ':', '%'];
    let max_len = if thorough { 8 } else { 7 };
    let mut evals = 0usize;
    let mut nontrivial = 0usize;
    let mut counts: std::collections::BTreeMap<String, usize> = std::collections::BTreeMap::new();
    let mut cur: Vec<usize> = Vec::new();
    // odometer over all strings of length 0..=max_len
    for len in 0..=max_len {
        cur.clear();
        cur.resize(len, 0);
        loop {
            let s: String = cur.iter().map(|i| alphabet[*i]).collect();
            evals += 1;
            let expect = c29_reference(&s);
            if expect.is_some() {
                nontrivial += 1;
            }
            let got = std::panic::catch_unwind(|| sanitize_archive_path(&s));
            let key = match got {
                Err(_) => Some("sanitize_archive_path.panic"),
                Ok(r) => match (r.ok(), expect) {
                    (Some(g), Some(e)) if g == e => None,
                    (None, None) => None,
                    (Some(g), _) if g.is_empty() || g.contains('\\') || g.starts_with('/') || g.split('/').any(|c| c.is_empty() || c == "." || c == "..") => Some("sanitize_archive_path.unsafe_output"),
                    (Some(_), None) => Some("sanitize_archive_path.accepts_rejected_input"),
                    (Some(_), Some(_)) => Some("sanitize_archive_path.wrong_normal_form"),
                    (None, Some(_)) => Some("sanitize_archive_path.rejects_valid_input"),
                },
            };
            if let Some(k) = key {
                let c = counts.entry(k.to_string()).or_insert(0);
                *c += 1;
                if *c <= 3 {
                    println!("VERIF-B-VIOLATION key={k} input={s:?}");
                }
            }
            // next
            let mut i = len;
            loop {
                if i == 0 {
                    break;
                }
                i -= 1;
                cur[i] += 1;
                if cur[i] < alphabet.len() {
                    break;
                }
                cur[i] = 0;
                if i == 0 {
                    i = usize::MAX;
                    break;
                }
            }
            if len == 0 || i == usize::MAX {
                break;
            }
        }
    }
    println!("VERIF-B-SAMPLE \"a/./a//.a\" -> {:?}; \"a/../a\" -> {:?}; \"a\\\\..\" -> {:?}", sanitize_archive_path("a/./a//.a").ok(), sanitize_archive_path("a/../a").ok(), sanitize_archive_path("a\\..").ok());
    println!("VERIF-B-SAMPLE violation classes this run: {:?}", counts);
    println!("VERIF-B unit=path_utils test=c29_sanitize_archive_path_all_short_strings evaluations={evals} nontrivial={nontrivial} exhaustive=true domain=every string of length 0..={max_len} over {{a . / \\ : %}}");
}

// ---------------------------------------------------------------- C29 (file-system half, Engine B, feature file_io)
// A ResourceStore with a base path never reads, writes or reveals the existence of a file whose REAL location is
// outside the manifest root - whatever the identifier and whatever symbolic links are in the tree.
#[cfg(all(test, feature = "file_io", unix))]
#[test]
fn c29_resource_store_confined_to_root_with_symlinks() {
    use std::{fs, os::unix::fs::symlink, path::PathBuf};
    let top: PathBuf = std::env::temp_dir().join(format!("verif_c29_{}", std::process::id()));
    let _ = fs::remove_dir_all(&top);
    let root = top.join("root");
    let outside = top.join("outside");
    fs::create_dir_all(root.join("sub")).unwrap();
    fs::create_dir_all(&outside).unwrap();
    fs::write(root.join("a.txt"), b"inside-a").unwrap();
    fs::write(root.join("sub/b.txt"), b"inside-b").unwrap();
    fs::write(outside.join("secret.txt"), b"SECRET").unwrap();
    // decoys: files OUTSIDE the root that have the same names as files inside it, at the places where the operating
    // system resolves `<symlinked dir>/../<name>`
    fs::write(top.join("a.txt"), b"SECRET").unwrap();
    fs::create_dir_all(top.join("sub")).unwrap();
    fs::write(top.join("sub/b.txt"), b"SECRET").unwrap();
    fs::write(outside.join("a.txt"), b"SECRET").unwrap();
    symlink("sub", root.join("link_in")).unwrap();
    symlink("../outside", root.join("link_out")).unwrap();
    symlink("../outside/secret.txt", root.join("link_file_out")).unwrap();
    symlink("nowhere", root.join("dangling")).unwrap();
    symlink("link_out", root.join("chain")).unwrap();
    symlink(&outside, root.join("abs_out")).unwrap();
    symlink("../outside/created.txt", root.join("dangling_out")).unwrap();
    let canon_root = root.canonicalize().unwrap();
    let snapshot_outside = |o: &PathBuf| -> Vec<(String, Vec<u8>)> {
        let mut v: Vec<(String, Vec<u8>)> = fs::read_dir(o).unwrap().filter_map(|e| e.ok()).map(|e| (e.file_name().to_string_lossy().to_string(), fs::read(e.path()).unwrap_or_default())).collect();
        v.sort();
        v
    };
    let before = snapshot_outside(&outside);

    let comps = ["a.txt", "sub", "b.txt", "..", ".", "link_in", "link_out", "link_file_out", "dangling", "dangling_out", "chain", "abs_out", "secret.txt", "outside", "new.txt", ""];
    let mut ids: Vec<String> = Vec::new();
    for a in comps {
        ids.push(a.to_string());
        for b in comps {
            ids.push(format!("{a}/{b}"));
            for c in ["secret.txt", "new.txt", "..", "b.txt", "outside"] {
                ids.push(format!("{a}/{b}/{c}"));
            }
        }
    }
    ids.push(outside.join("secret.txt").to_string_lossy().to_string());
    ids.push("..\\outside\\secret.txt".to_string());
    ids.push("link_out\\secret.txt".to_string());
    ids.push("%2e%2e/outside/secret.txt".to_string());
    ids.push("../outside/secret.txt".to_string());
    ids.push("sub/../../outside/secret.txt".to_string());
    ids.sort();
    ids.dedup();

    // the real location of an identifier (None: does not exist / cannot be resolved)
    let real_outside = |id: &str| -> bool {
        match root.join(id).canonicalize() {
            Ok(p) => !p.starts_with(&canon_root),
            Err(_) => false,
        }
    };
    let mut evals = 0usize;
    let mut nontrivial = 0usize;
    let mut counts: std::collections::BTreeMap<String, usize> = std::collections::BTreeMap::new();
    let mut bad = |k: &str, input: String, counts: &mut std::collections::BTreeMap<String, usize>| {
        let c = counts.entry(k.to_string()).or_insert(0);
        *c += 1;
        if *c <= 3 {
            println!("VERIF-B-VIOLATION key={k} input={input}");
        }
    };
    for id in &ids {
        let mut store = crate::ResourceStore::new();
        store.set_base_path(&root);
        let escapes = real_outside(id);
        evals += 4;
        if escapes {
            nontrivial += 4;
        }
        // read
        if let Ok(data) = store.get(id) {
            if escapes || data.as_slice() == b"SECRET" {
                bad("resource.read_outside_root", format!("get({id:?}) returned {} bytes", data.len()), &mut counts);
            }
        }
        let mut sink = std::io::Cursor::new(Vec::new());
        if store.write_stream(id, &mut sink).is_ok() && (escapes || sink.get_ref().as_slice() == b"SECRET") {
            bad("resource.exported_outside_root", format!("write_stream({id:?})"), &mut counts);
        }
        // existence
        if escapes && store.exists(id) {
            bad("resource.existence_revealed_outside_root", format!("exists({id:?}) == true"), &mut counts);
        }
        if let Some(p) = store.path_for_id(id) {
            if p.canonicalize().map(|c| !c.starts_with(&canon_root)).unwrap_or(false) {
                bad("resource.path_for_id_outside_root", format!("path_for_id({id:?}) = {p:?}"), &mut counts);
            }
        }
        // write
        evals += 1;
        nontrivial += 1;
        let _ = store.add(id.clone(), b"WRITTEN".to_vec());
        let after = snapshot_outside(&outside);
        if after != before {
            bad("resource.write_outside_root", format!("add({id:?}) changed the directory outside the root: {:?}", after.iter().map(|(n, d)| (n.clone(), d.len())).collect::<Vec<_>>()), &mut counts);
            // restore
            let _ = fs::remove_dir_all(&outside);
            fs::create_dir_all(&outside).unwrap();
            fs::write(outside.join("secret.txt"), b"SECRET").unwrap();
        }
        // undo writes inside the root that replaced fixture files
        fs::write(root.join("a.txt"), b"inside-a").ok();
        fs::write(root.join("sub/b.txt"), b"inside-b").ok();
    }
    let _ = fs::remove_dir_all(&top);
    println!("VERIF-B-SAMPLE tree: root/{{a.txt, sub/b.txt, link_in->sub, link_out->../outside, link_file_out->../outside/secret.txt, dangling, chain->link_out, abs_out->/abs/outside}} ; outside/secret.txt");
    println!("VERIF-B-SAMPLE violation classes this run: {:?}", counts);
    println!("VERIF-B unit=path_utils test=c29_resource_store_confined_to_root_with_symlinks evaluations={evals} nontrivial={nontrivial} exhaustive=true domain={} identifiers (1..=3 components over 16 names incl. .., symlinks inside / outside / chained / dangling / absolute-target, plus absolute, backslash and percent-encoded forms) x {{get, write_stream, exists, path_for_id, add}} on one directory tree", ids.len());
}
