use vstd::prelude::*;
verus! {

pub enum Error { BadParam(String), Other }
pub type Result<T> = core::result::Result<T, Error>;

#[derive(Default, Clone, PartialEq, Debug)]
pub struct MerkleNode(pub Vec<u8>);

pub struct C2PAMerkleTree {
    pub leaves: Vec<MerkleNode>,
    pub layers: Vec<Vec<MerkleNode>>,
}

impl C2PAMerkleTree {
    pub fn get_proof_by_index(
        &self,
        leaf_indx: usize,
        max_proof_len: usize,
    ) -> Result<Vec<Vec<u8>>> {
        if self.leaves.is_empty() || leaf_indx >= self.leaves.len() {
            return Err(Error::BadParam(
                "Merkle proof index out of range".to_string(),
            ));
        }

        let mut proofs_left = max_proof_len;
        let mut proof: Vec<Vec<u8>> = Vec::new();
        let mut index = leaf_indx;

        for i in 0..self.layers.len() {
            if proofs_left == 0 {
                break;
            }

            let layer = &self.layers[i];
            let is_right = index % 2 == 1;

            if is_right {
                if index - 1 < layer.len() {
                    proof.push(layer[index - 1].0.clone());
                }
            } else if index + 1 < layer.len() {
                proof.push(layer[index + 1].0.clone());
            }
            index /= 2;
            proofs_left -= 1;
        }
        Ok(proof)
    }
}

} // verus!
fn main() {}
