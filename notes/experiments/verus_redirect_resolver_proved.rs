use vstd::prelude::*;
use std::io::Read;
verus! {

#[verifier::external_trait_specification]
pub trait ExRead { type ExternalTraitSpecificationFor: Read; }

// ---- opaque stand-ins for http / url types (dependency shims) ----
#[verifier::external_body] pub struct Uri { _p: u8 }
#[verifier::external_body] pub struct Method { _p: u8 }
#[verifier::external_body] pub struct HeaderMap { _p: u8 }
#[verifier::external_body] #[verifier::reject_recursive_types(B)] pub struct Request<B> { _b: B }
#[verifier::external_body] #[verifier::reject_recursive_types(B)] pub struct Response<B> { _b: B }

#[derive(Debug)]
pub enum HttpResolverError {
    RedirectDisallowed { uri: String, location: String },
    RedirectTargetDisallowed { uri: String, location: String },
    TooManyRedirects { uri: String },
    Other,
}

pub uninterp spec fn non_global(u: &Uri) -> bool;
pub uninterp spec fn req_uri<B>(r: &Request<B>) -> Uri;

impl Uri {
    #[verifier::external_body] pub fn to_string(&self) -> String { unimplemented!() }
    #[verifier::external_body] pub fn clone(&self) -> (r: Uri) ensures r == *self { unimplemented!() }
}
impl Method { #[verifier::external_body] pub fn clone(&self) -> (r: Method) { unimplemented!() } }
impl HeaderMap { #[verifier::external_body] pub fn clone(&self) -> (r: HeaderMap) { unimplemented!() } }
impl<B> Request<B> {
    #[verifier::external_body] pub fn uri(&self) -> (r: &Uri) ensures *r == req_uri(self) { unimplemented!() }
    #[verifier::external_body] pub fn method(&self) -> (r: &Method) { unimplemented!() }
    #[verifier::external_body] pub fn headers(&self) -> (r: &HeaderMap) { unimplemented!() }
    #[verifier::external_body] pub fn body(&self) -> (r: &B) { unimplemented!() }
}

#[verifier::external_body] pub fn sanitize_for_log(v: &str) -> String { unimplemented!() }
#[verifier::external_body] pub fn redirect_location<B>(response: &Response<B>) -> Option<String> { unimplemented!() }
#[verifier::external_body] pub fn resolve_redirect_target(base: &Uri, location: &str) -> Result<Uri, HttpResolverError> { unimplemented!() }
#[verifier::external_body] pub fn host_is_non_global(uri: &Uri) -> (r: bool) ensures r == non_global(uri) { unimplemented!() }
#[verifier::external_body] pub fn build_redirected_request(method: Method, headers: HeaderMap, body: Vec<u8>, target: Uri) -> (r: Result<Request<Vec<u8>>, HttpResolverError>)
    ensures r is Ok ==> req_uri(&r.unwrap()) == target
{ unimplemented!() }

pub trait SyncHttpResolver {
    fn http_resolve(&self, request: Request<Vec<u8>>) -> Result<Response<Box<dyn Read>>, HttpResolverError>;
}

const MAX_REDIRECTS: usize = 10;

pub struct RedirectResolver<T> {
    pub inner: T,
    pub allow_redirects: bool,
}

impl<T> RedirectResolver<T> {
    fn redirect_target<B>(
        &self,
        from_uri: &Uri,
        response: &Response<B>,
    ) -> (res: Result<Option<Uri>, HttpResolverError>)
        ensures res is Ok && res.unwrap() is Some ==> self.allow_redirects && !non_global(&res.unwrap().unwrap()),
    {
        let Some(location) = redirect_location(response) else {
            return Ok(None);
        };

        if !self.allow_redirects {
            return Err(HttpResolverError::RedirectDisallowed {
                uri: sanitize_for_log(&from_uri.to_string()),
                location: sanitize_for_log(&location),
            });
        }

        let target = resolve_redirect_target(from_uri, &location)?;
        if host_is_non_global(&target) {
            return Err(HttpResolverError::RedirectTargetDisallowed {
                uri: sanitize_for_log(&from_uri.to_string()),
                location: sanitize_for_log(&target.to_string()),
            });
        }

        Ok(Some(target))
    }
}

impl<T: SyncHttpResolver> SyncHttpResolver for RedirectResolver<T> {
    fn http_resolve(
        &self,
        mut request: Request<Vec<u8>>,
    ) -> Result<Response<Box<dyn Read>>, HttpResolverError> {
        let ghost first_uri = req_uri(&request);
        let ghost mut calls: int = 0;
        for _ in it: 0..=MAX_REDIRECTS
            invariant
                calls == it.index@, calls <= MAX_REDIRECTS + 1,
                calls == 0 ==> req_uri(&request) == first_uri,
                calls > 0 ==> (self.allow_redirects && !non_global(&req_uri(&request))),
        {
            let from_uri = request.uri().clone();
            let method = request.method().clone();
            let headers = request.headers().clone();
            let body = request.body().clone();

            // obligation (C27): a request reaches the inner resolver only if it is the original one
            // or its target passed the redirect checks
            assert(calls == 0 || (self.allow_redirects && !non_global(&req_uri(&request))));
            assert(calls < MAX_REDIRECTS + 1);
            let response = self.inner.http_resolve(request)?;
            proof { calls = calls + 1; }

            match self.redirect_target(&from_uri, &response)? {
                None => return Ok(response),
                Some(target) => {
                    request = build_redirected_request(method, headers, body, target)?;
                }
            }
        }

        Err(HttpResolverError::TooManyRedirects {
            uri: sanitize_for_log(&request.uri().to_string()),
        })
    }
}

}
fn main() {}
