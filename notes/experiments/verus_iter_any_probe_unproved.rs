use vstd::prelude::*;
verus! {

pub struct ValidationStatus { pub code: String }
impl ValidationStatus {
    pub fn code(&self) -> (r: &str) ensures r@ == self.code@ { self.code.as_str() }
}

pub struct StatusCodes { pub success: Vec<ValidationStatus>, pub failure: Vec<ValidationStatus> }
impl StatusCodes {
    pub fn success(&self) -> (r: &Vec<ValidationStatus>) ensures r == &self.success { &self.success }
}

pub const CLAIM_SIGNATURE_VALIDATED: &'static str = "claimSignature.validated";

pub open spec fn has_code(s: Seq<ValidationStatus>, c: Seq<char>) -> bool {
    exists|i: int| 0 <= i < s.len() && (#[trigger] s[i]).code@ == c
}
pub fn has_validated(active_manifest: &StatusCodes) -> (r: bool)
    ensures r == has_code(active_manifest.success@, CLAIM_SIGNATURE_VALIDATED@)
{
    active_manifest
        .success()
        .iter()
        .any(|status: &ValidationStatus| -> (b: bool) ensures b == (status.code@ == CLAIM_SIGNATURE_VALIDATED@) { status.code() == CLAIM_SIGNATURE_VALIDATED })
}

}
fn main() {}
