#[cfg(kani)]
mod verif_kani {
    use super::*;
    use std::panic as sp;
    use std::sync::mpsc::{Sender, Receiver};
    fn stub_catch<F: FnOnce() -> R + std::panic::UnwindSafe, R>(f: F) -> std::thread::Result<R> { Ok(f()) }
    fn stub_channel<T>() -> (Sender<T>, Receiver<T>) { kani::assume(false); unreachable!() }
    fn stub_send<T>(_s: &Sender<T>, _t: T) -> std::result::Result<(), std::sync::mpsc::SendError<T>> { kani::assume(false); unreachable!() }
    fn stub_recv<T>(_s: &Receiver<T>) -> std::result::Result<T, std::sync::mpsc::RecvError> { kani::assume(false); unreachable!() }
    fn stub_finalize(_h: Hasher) -> Vec<u8> { vec![1u8] }
    fn stub_spawn<F, T>(_b: std::thread::Builder, _f: F) -> std::io::Result<std::thread::JoinHandle<T>>
      where F: FnOnce() -> T + Send + 'static, T: Send + 'static { kani::assume(false); unreachable!() }

    const CAP: usize = 64;
    static mut LOG: [u8; CAP] = [0u8; CAP];
    static mut LOG_LEN: usize = 0;

    fn stub_update(_h: &mut Hasher, data: &[u8]) {
        unsafe {
            let mut i = 0;
            while i < data.len() {
                if LOG_LEN < CAP {
                    LOG[LOG_LEN] = data[i];
                }
                LOG_LEN += 1;
                i += 1;
            }
        }
    }

    const N: usize = 5;

    #[kani::proof]
    #[kani::stub(Hasher::update, stub_update)]
    #[kani::stub(std::sync::mpsc::channel, stub_channel)]
    #[kani::stub(std::thread::Builder::spawn, stub_spawn)]
    #[kani::stub(sp::catch_unwind, stub_catch)]
    #[kani::stub(std::sync::mpsc::Sender::send, stub_send)]
    #[kani::stub(std::sync::mpsc::Receiver::recv, stub_recv)]
    #[kani::stub(Hasher::finalize, stub_finalize)]
    #[kani::unwind(4)]
    fn exclusion_one_range() {
        let data: [u8; 3] = kani::any();
        let len: usize = kani::any();
        kani::assume(len >= 1 && len <= 3);
        let mut cur = Cursor::new(&data[..len]);
        let s1: u64 = kani::any();
        let l1: u64 = kani::any();
        kani::assume(s1 <= 7 && l1 <= 7);
        let hr = vec![HashRange::new(s1, l1)];
        let res = hash_stream_by_alg_with_progress_impl("sha256", &mut cur, Some(hr), true, &mut |_, _| Ok(()), NonZeroUsize::new(1 << 20).unwrap());
        let past_end = s1 as u128 + l1 as u128 > len as u128;
        if past_end { assert!(res.is_err()); }
        if res.is_ok() {
            let mut k = 0usize; let mut i = 0usize;
            while i < len {
                let ex = l1 > 0 && (i as u64) >= s1 && ((i as u64) - s1) < l1;
                if !ex { unsafe { assert!(k < LOG_LEN); assert!(LOG[k] == data[i]); } k += 1; }
                i += 1;
            }
            unsafe { assert!(k == LOG_LEN); }
        }
        kani::cover!(res.is_ok() && l1 > 0);
        kani::cover!(res.is_err());
        std::mem::forget(res);
    }

    #[kani::proof]
    #[kani::stub(Hasher::update, stub_update)]
    #[kani::stub(std::sync::mpsc::channel, stub_channel)]
    #[kani::stub(std::thread::Builder::spawn, stub_spawn)]
    #[kani::stub(sp::catch_unwind, stub_catch)]
    #[kani::stub(std::sync::mpsc::Sender::send, stub_send)]
    #[kani::stub(std::sync::mpsc::Receiver::recv, stub_recv)]
    #[kani::stub(Hasher::finalize, stub_finalize)]
    #[kani::unwind(4)]
    fn inclusion_one_range() {
        let data: [u8; 3] = kani::any();
        let len: usize = kani::any();
        kani::assume(len >= 1 && len <= 3);
        let mut cur = Cursor::new(&data[..len]);
        let s1: u64 = kani::any();
        let l1: u64 = kani::any();
        let hr = vec![HashRange::new(s1, l1)];
        let res = hash_stream_by_alg_with_progress_impl("sha256", &mut cur, Some(hr), false, &mut |_, _| Ok(()), NonZeroUsize::new(1 << 20).unwrap());
        let past_end = s1 as u128 + l1 as u128 > len as u128;
        if past_end { assert!(res.is_err()); }
        if res.is_ok() {
            let mut k = 0usize; let mut i = 0usize;
            while i < len {
                let inc = l1 > 0 && (i as u64) >= s1 && ((i as u64) - s1) < l1;
                if inc { unsafe { assert!(k < LOG_LEN); assert!(LOG[k] == data[i]); } k += 1; }
                i += 1;
            }
            unsafe { assert!(k == LOG_LEN); }
        }
        kani::cover!(res.is_ok() && l1 > 0);
        kani::cover!(res.is_err());
        std::mem::forget(res);
    }

    #[kani::proof]
    #[kani::unwind(8)]
    fn b_sha_new() { let _h = Hasher::SHA256(Sha256::new()); }

    #[kani::proof]
    #[kani::unwind(3)]
    fn b_rangeset() {
        let a: u64 = kani::any(); let b: u64 = kani::any();
        kani::assume(a <= b && b < 10);
        let mut ranges = RangeSet::<[RangeInclusive<u64>; 1]>::from(0..=10u64);
        ranges.remove_range(a..=b);
        let v = ranges.into_smallvec();
        assert!(v.len() <= 2);
    }

    #[kani::proof]
    #[kani::unwind(8)]
    fn b_streamlen() {
        let data: [u8; N] = kani::any();
        let mut cur = Cursor::new(&data[..]);
        let l = stream_len(&mut cur).unwrap();
        assert!(l == N as u64);
    }

    #[kani::proof]
    #[kani::stub(Hasher::update, stub_update)]
    #[kani::stub(std::sync::mpsc::channel, stub_channel)]
    #[kani::stub(std::thread::Builder::spawn, stub_spawn)]
    #[kani::stub(sp::catch_unwind, stub_catch)]
    #[kani::stub(std::sync::mpsc::Sender::send, stub_send)]
    #[kani::stub(std::sync::mpsc::Receiver::recv, stub_recv)]
    #[kani::stub(Hasher::finalize, stub_finalize)]
    #[kani::unwind(3)]
    fn b_norange() {
        let data: [u8; 2] = kani::any();
        let mut cur = Cursor::new(&data[..]);
        let res = hash_stream_by_alg_with_progress_impl("sha256", &mut cur, None, true, &mut |_, _| Ok(()), NonZeroUsize::new(1 << 20).unwrap());
        assert!(res.is_ok());
        unsafe { assert!(LOG_LEN == 2); assert!(LOG[0] == data[0] && LOG[1] == data[1]); }
        std::mem::forget(res);
    }

    #[kani::proof]
    #[kani::stub(Hasher::update, stub_update)]
    #[kani::stub(std::sync::mpsc::channel, stub_channel)]
    #[kani::stub(std::thread::Builder::spawn, stub_spawn)]
    #[kani::stub(sp::catch_unwind, stub_catch)]
    #[kani::stub(std::sync::mpsc::Sender::send, stub_send)]
    #[kani::stub(std::sync::mpsc::Receiver::recv, stub_recv)]
    #[kani::stub(Hasher::finalize, stub_finalize)]
    #[kani::unwind(8)]
    fn exclusion_two_ranges() {
        let data: [u8; N] = kani::any();
        let len: usize = kani::any();
        kani::assume(len >= 1 && len <= N);
        let mut cur = Cursor::new(&data[..len]);
        let s1: u64 = kani::any();
        let l1: u64 = kani::any();
        let s2: u64 = kani::any();
        let l2: u64 = kani::any();
        let hr = vec![HashRange::new(s1, l1), HashRange::new(s2, l2)];
        let res = hash_stream_by_alg_with_progress_impl(
            "sha256",
            &mut cur,
            Some(hr),
            true,
            &mut |_, _| Ok(()),
            NonZeroUsize::new(1 << 20).unwrap(),
        );
        // spec: excluded(i) iff in r1 or r2 (mathematical, u128)
        let ex = |i: usize| -> bool {
            let i = i as u128;
            (l1 > 0 && i >= s1 as u128 && i < s1 as u128 + l1 as u128)
                || (l2 > 0 && i >= s2 as u128 && i < s2 as u128 + l2 as u128)
        };
        let past_end = (s1 as u128 + l1 as u128 > len as u128) || (s2 as u128 + l2 as u128 > len as u128);
        if past_end {
            assert!(res.is_err());
        }
        if res.is_ok() {
            // the bytes fed to the hasher are exactly the non-excluded bytes in order
            let mut k = 0usize;
            let mut i = 0usize;
            while i < len {
                if !ex(i) {
                    unsafe {
                        assert!(k < LOG_LEN);
                        assert!(LOG[k] == data[i]);
                    }
                    k += 1;
                }
                i += 1;
            }
            unsafe { assert!(k == LOG_LEN); }
        }
    }
}

#[cfg(test)]
mod verif_scratch_tests {
    #![allow(clippy::unwrap_used)]
    use super::*;

    fn sha(x: &[u8]) -> Vec<u8> { let mut h = Hasher::new("sha256").unwrap(); h.update(x); Hasher::finalize(h) }

    #[test]
    fn s2_past_end_not_last() {
        let data = vec![7u8; 50];
        let r = hash_stream_by_alg("sha256", &mut Cursor::new(&data), Some(vec![HashRange::new(0, 100), HashRange::new(5, 1)]), true);
        println!("S2 exclusion [(0,100),(5,1)] on 50 bytes -> {:?}", r.as_ref().map(|v| v.len()));
        let r2 = hash_stream_by_alg("sha256", &mut Cursor::new(&data), Some(vec![HashRange::new(0, 100)]), true);
        println!("S2 exclusion [(0,100)] on 50 bytes -> {:?}", r2.as_ref().map(|v| v.len()));
        let r3 = hash_stream_by_alg("sha256", &mut Cursor::new(&data), Some(vec![HashRange::new(10, 100), HashRange::new(20, 1)]), true);
        println!("S2 exclusion [(10,100),(20,1)] on 50 bytes -> ok={} equals_hash_of_first_10={}", r3.is_ok(), r3.as_ref().map(|v| *v == sha(&data[..10])).unwrap_or(false));
    }

    #[test]
    fn s3_marker_single_byte() {
        let data: Vec<u8> = (0u8..20).collect();
        // exclude [0,10) and [11,20): only byte 10 included; marker at 10
        let mut m = HashRange::new(10, 1); m.set_bmff_offset(10);
        let r = hash_stream_by_alg("sha256", &mut Cursor::new(&data), Some(vec![HashRange::new(0, 10), HashRange::new(11, 9), m]), true).unwrap();
        let mut expect = Vec::new(); expect.extend_from_slice(&10u64.to_be_bytes()); expect.push(data[10]);
        let mut twice = Vec::new(); twice.extend_from_slice(&10u64.to_be_bytes()); twice.extend_from_slice(&10u64.to_be_bytes());
        println!("S3 single byte at marker: equals offset++byte = {}, equals offset++offset = {}", r == sha(&expect), r == sha(&twice));
        // marker before first included byte
        let mut m2 = HashRange::new(2, 1); m2.set_bmff_offset(2);
        let r = hash_stream_by_alg("sha256", &mut Cursor::new(&data), Some(vec![HashRange::new(0, 5), m2]), true).unwrap();
        let mut with = Vec::new(); with.extend_from_slice(&2u64.to_be_bytes()); with.extend_from_slice(&data[5..]);
        println!("S3 marker inside leading exclusion: hashed with marker = {}, marker dropped = {}", r == sha(&with), r == sha(&data[5..]));
    }
}
