#[cfg(kani)]
mod verif_kani {
    use super::*;
    use std::panic as sp;
    use std::sync::mpsc::{Sender, Receiver};
    fn stub_catch<F: FnOnce() -> R + std::panic::UnwindSafe, R>(f: F) -> std::thread::Result<R> { Ok(f()) }
    fn stub_channel<T>() -> (Sender<T>, Receiver<T>) { kani::assume(false); unreachable!() }
    fn stub_send<T>(_s: &Sender<T>, _t: T) -> std::result::Result<(), std::sync::mpsc::SendError<T>> { kani::assume(false); unreachable!() }
    fn stub_recv<T>(_s: &Receiver<T>) -> std::result::Result<T, std::sync::mpsc::RecvError> { kani::assume(false); unreachable!() }
    fn stub_finalize(_h: Hasher) -> Vec<u8> { vec![1u8] }
    fn stub_spawn<F, T>(_b: std::thread::Builder, _f: F) -> std::io::Result<std::thread::JoinHandle<T>>
      where F: FnOnce() -> T + Send + 'static, T: Send + 'static { kani::assume(false); unreachable!() }

    const CAP: usize = 64;
    static mut LOG: [u8; CAP] = [0u8; CAP];
    static mut LOG_LEN: usize = 0;

    fn stub_update(_h: &mut Hasher, data: &[u8]) {
        unsafe {
            let mut i = 0;
            while i < data.len() {
                if LOG_LEN < CAP {
                    LOG[LOG_LEN] = data[i];
                }
                LOG_LEN += 1;
                i += 1;
            }
        }
    }

    const N: usize = 5;

    #[kani::proof]
    #[kani::stub(Hasher::update, stub_update)]
    #[kani::stub(std::sync::mpsc::channel, stub_channel)]
    #[kani::stub(std::thread::Builder::spawn, stub_spawn)]
    #[kani::stub(sp::catch_unwind, stub_catch)]
    #[kani::stub(std::sync::mpsc::Sender::send, stub_send)]
    #[kani::stub(std::sync::mpsc::Receiver::recv, stub_recv)]
    #[kani::stub(Hasher::finalize, stub_finalize)]
    #[kani::unwind(4)]
    fn exclusion_one_range() {
        let data: [u8; 3] = kani::any();
        let len: usize = kani::any();
        kani::assume(len >= 1 && len <= 3);
        let mut cur = Cursor::new(&data[..len]);
        let s1: u64 = kani::any();
        let l1: u64 = kani::any();
        let hr = vec![HashRange::new(s1, l1)];
        let res = hash_stream_by_alg_with_progress_impl("sha256", &mut cur, Some(hr), true, &mut |_, _| Ok(()), NonZeroUsize::new(1 << 20).unwrap());
        let past_end = s1 as u128 + l1 as u128 > len as u128;
        if past_end { assert!(res.is_err()); }
        if res.is_ok() {
            let mut k = 0usize; let mut i = 0usize;
            while i < len {
                let ex = l1 > 0 && (i as u64) >= s1 && ((i as u64) - s1) < l1;
                if !ex { unsafe { assert!(k < LOG_LEN); assert!(LOG[k] == data[i]); } k += 1; }
                i += 1;
            }
            unsafe { assert!(k == LOG_LEN); }
        }
    }

    #[kani::proof]
    #[kani::unwind(8)]
    fn b_sha_new() { let _h = Hasher::SHA256(Sha256::new()); }

    #[kani::proof]
    #[kani::unwind(8)]
    fn b_rangeset() {
        let a: u64 = kani::any(); let b: u64 = kani::any();
        kani::assume(a <= b && b < 10);
        let mut ranges = RangeSet::<[RangeInclusive<u64>; 1]>::from(0..=10u64);
        ranges.remove_range(a..=b);
        let v = ranges.into_smallvec();
        assert!(v.len() <= 2);
    }

    #[kani::proof]
    #[kani::unwind(8)]
    fn b_streamlen() {
        let data: [u8; N] = kani::any();
        let mut cur = Cursor::new(&data[..]);
        let l = stream_len(&mut cur).unwrap();
        assert!(l == N as u64);
    }

    #[kani::proof]
    #[kani::stub(Hasher::update, stub_update)]
    #[kani::stub(std::sync::mpsc::channel, stub_channel)]
    #[kani::stub(std::thread::Builder::spawn, stub_spawn)]
    #[kani::stub(sp::catch_unwind, stub_catch)]
    #[kani::stub(std::sync::mpsc::Sender::send, stub_send)]
    #[kani::stub(std::sync::mpsc::Receiver::recv, stub_recv)]
    #[kani::stub(Hasher::finalize, stub_finalize)]
    #[kani::unwind(3)]
    fn b_norange() {
        let data: [u8; 2] = kani::any();
        let mut cur = Cursor::new(&data[..]);
        let res = hash_stream_by_alg_with_progress_impl("sha256", &mut cur, None, true, &mut |_, _| Ok(()), NonZeroUsize::new(1 << 20).unwrap());
        assert!(res.is_ok());
    }

    #[kani::proof]
    #[kani::stub(Hasher::update, stub_update)]
    #[kani::stub(std::sync::mpsc::channel, stub_channel)]
    #[kani::stub(std::thread::Builder::spawn, stub_spawn)]
    #[kani::stub(sp::catch_unwind, stub_catch)]
    #[kani::stub(std::sync::mpsc::Sender::send, stub_send)]
    #[kani::stub(std::sync::mpsc::Receiver::recv, stub_recv)]
    #[kani::stub(Hasher::finalize, stub_finalize)]
    #[kani::unwind(8)]
    fn exclusion_two_ranges() {
        let data: [u8; N] = kani::any();
        let len: usize = kani::any();
        kani::assume(len >= 1 && len <= N);
        let mut cur = Cursor::new(&data[..len]);
        let s1: u64 = kani::any();
        let l1: u64 = kani::any();
        let s2: u64 = kani::any();
        let l2: u64 = kani::any();
        let hr = vec![HashRange::new(s1, l1), HashRange::new(s2, l2)];
        let res = hash_stream_by_alg_with_progress_impl(
            "sha256",
            &mut cur,
            Some(hr),
            true,
            &mut |_, _| Ok(()),
            NonZeroUsize::new(1 << 20).unwrap(),
        );
        // spec: excluded(i) iff in r1 or r2 (mathematical, u128)
        let ex = |i: usize| -> bool {
            let i = i as u128;
            (l1 > 0 && i >= s1 as u128 && i < s1 as u128 + l1 as u128)
                || (l2 > 0 && i >= s2 as u128 && i < s2 as u128 + l2 as u128)
        };
        let past_end = (s1 as u128 + l1 as u128 > len as u128) || (s2 as u128 + l2 as u128 > len as u128);
        if past_end {
            assert!(res.is_err());
        }
        if res.is_ok() {
            // the bytes fed to the hasher are exactly the non-excluded bytes in order
            let mut k = 0usize;
            let mut i = 0usize;
            while i < len {
                if !ex(i) {
                    unsafe {
                        assert!(k < LOG_LEN);
                        assert!(LOG[k] == data[i]);
                    }
                    k += 1;
                }
                i += 1;
            }
            unsafe { assert!(k == LOG_LEN); }
        }
    }
}
