use vstd::prelude::*;
use std::io::{Read, Seek};
verus! {

#[derive(Debug)]
pub enum Error { BadParam(String), HashMismatch(String), OperationCancelled, Other }
pub type Result<T> = core::result::Result<T, Error>;

#[verifier::external_trait_specification]
pub trait ExRead { type ExternalTraitSpecificationFor: Read; }
#[verifier::external_trait_specification]
pub trait ExSeek { type ExternalTraitSpecificationFor: Seek; }

#[verifier::external_body] pub struct UriT { _p: u8 }
#[derive(Clone)]
pub struct HashRange { pub start: u64, pub length: u64 }

pub struct DataHash {
    pub exclusions: Option<Vec<HashRange>>,
    pub alg: Option<String>,
    pub hash: Vec<u8>,
    pub url: Option<UriT>,
}

pub open spec fn exview(ex: Option<Vec<HashRange>>) -> Option<Seq<(u64, u64)>> {
    match ex { Some(v) => Some(rview(v)), None => None }
}
pub uninterp spec fn stream_digest<R: ?Sized>(alg: Seq<char>, reader: &R, ex: Option<Seq<(u64, u64)>>) -> Seq<u8>;
pub open spec fn rview(v: Vec<HashRange>) -> Seq<(u64, u64)> { Seq::new(v@.len(), |i: int| (v@[i].start, v@[i].length)) }
#[verifier::external_body]
pub broadcast proof fn axiom_ranges_clone(a: Vec<HashRange>, b: Vec<HashRange>)
    requires #[trigger] cloned::<Vec<HashRange>>(a, b)
    ensures rview(a) == rview(b)
{}

#[verifier::external_body]
pub fn hash_stream_by_alg_with_progress<R, F>(alg: &str, data: &mut R, hash_range: Option<Vec<HashRange>>, is_exclusion: bool, progress: &mut F) -> (r: Result<Vec<u8>>)
    where R: Read + Seek + ?Sized, F: FnMut(u32, u32) -> Result<()>,
    ensures r is Ok ==> r.unwrap()@ == stream_digest(alg@, old(data), exview(hash_range)),
{ unimplemented!() }

#[verifier::external_body]
pub fn vec_compare(va: &[u8], vb: &[u8]) -> (r: bool) ensures r == (va@ == vb@) { unimplemented!() }

#[verifier::external_body]
pub fn clone_ex(e: &Option<Vec<HashRange>>) -> (r: Option<Vec<HashRange>>) ensures r == *e { unimplemented!() }

impl DataHash {
    pub fn is_remote_hash(&self) -> (r: bool) ensures r == self.url.is_some() {
        self.url.is_some()
    }

    pub fn verify_stream_hash_with_progress<R, F>(
        &self,
        reader: &mut R,
        alg: Option<&str>,
        progress: &mut F,
    ) -> (res: Result<()>)
    where
        R: Read + Seek + ?Sized,
        F: FnMut(u32, u32) -> Result<()>,
        ensures
            res is Ok ==> (self.url is None && exists|a: Seq<char>| self.hash@ == stream_digest(a, old(reader), exview(self.exclusions))),
    {
        broadcast use axiom_ranges_clone;
        if self.is_remote_hash() {
            return Err(Error::BadParam("asset hash is remote".to_owned()));
        }

        let curr_alg = match &self.alg {
            Some(a) => a.clone(),
            None => match alg {
                Some(a) => a.to_owned(),
                None => return Err(Error::HashMismatch("no alg specified".to_owned())),
            },
        };

        let exclusions = self.exclusions.as_ref().cloned();

        let computed =
            hash_stream_by_alg_with_progress(&curr_alg, reader, exclusions, true, progress)?;

        if vec_compare(&self.hash, &computed) {
            Ok(())
        } else {
            Err(Error::HashMismatch("Hashes do not match".to_owned()))
        }
    }
}

}
fn main() {}
