// Prototype of the generated file for unit `merkle` (C16).  Sections marked EXTRACTED are the
// real function bodies from /repo (rules X1, X2, X4 applied), everything else is contract text.
use vstd::prelude::*;
use std::ops::Deref;
verus! {

// ============================ PRELUDE: assumptions ============================
#[derive(Debug)]
pub enum Error { BadParam(String), Other }
pub type Result<T> = core::result::Result<T, Error>;

pub uninterp spec fn H(alg: Seq<char>, data: Seq<u8>) -> Seq<u8>;

// dependency shim: serde_bytes::ByteBuf is a newtype over Vec<u8> with Deref<Target = Vec<u8>>
pub struct ByteBuf(pub Vec<u8>);
impl Deref for ByteBuf {
    type Target = Vec<u8>;
    fn deref(&self) -> (r: &Vec<u8>) ensures r@ == self.0@ { &self.0 }
}

#[verifier::external_body]
pub fn concat_and_hash(alg: &str, left: &[u8], right: Option<&[u8]>) -> (r: Vec<u8>)
    ensures right is Some ==> r@ == H(alg@, left@ + right.unwrap()@),
            right is None ==> r@ == H(alg@, left@),
{ unimplemented!() }

#[verifier::external_body]
pub fn vec_compare(va: &[u8], vb: &[u8]) -> (r: bool) ensures r == (va@ == vb@) { unimplemented!() }

pub uninterp spec fn clone_eq<T>(a: Seq<T>, b: Seq<T>) -> bool;
pub assume_specification<T: Clone> [<[T]>::to_vec] (s: &[T]) -> (r: Vec<T>)
    ensures clone_eq(s@, r@);
#[verifier::external_body]
pub broadcast proof fn axiom_u8_clone(a: Seq<u8>, b: Seq<u8>)
    requires #[trigger] clone_eq(a, b) ensures a == b {}
#[verifier::external_body]
pub broadcast proof fn axiom_merkle_node_clone(a: Seq<MerkleNode>, b: Seq<MerkleNode>)
    requires #[trigger] clone_eq(a, b) ensures same_nodes(a, b) {}

// ============================ SPEC ============================
pub open spec fn half(n: int) -> int { (n + 1) / 2 }

pub open spec fn layout(n: int) -> Seq<int>
    decreases n
{
    if n <= 1 { seq![n] } else { seq![n].add(layout(half(n))) }
}

pub open spec fn parent_of(alg: Seq<char>, layer: Seq<MerkleNode>, j: int) -> Seq<u8> {
    if 2 * j + 1 < layer.len() { H(alg, layer[2 * j].0@ + layer[2 * j + 1].0@) } else { layer[2 * j].0@ }
}
pub open spec fn partial_link(alg: Seq<char>, lo: Seq<MerkleNode>, hi: Seq<MerkleNode>) -> bool {
    forall|j: int| 0 <= j < hi.len() ==> (#[trigger] hi[j]).0@ == parent_of(alg, lo, j)
}
pub open spec fn link(alg: Seq<char>, lo: Seq<MerkleNode>, hi: Seq<MerkleNode>) -> bool {
    lo.len() > 1 && hi.len() == half(lo.len() as int)
    && forall|j: int| 0 <= j < hi.len() ==> (#[trigger] hi[j]).0@ == parent_of(alg, lo, j)
}
pub open spec fn same_nodes(a: Seq<MerkleNode>, b: Seq<MerkleNode>) -> bool {
    a.len() == b.len() && forall|i: int| 0 <= i < a.len() ==> (#[trigger] a[i]).0@ == b[i].0@
}
pub open spec fn wf(alg: Seq<char>, t: Seq<Vec<MerkleNode>>) -> bool {
    t.len() >= 1
    && (forall|k: int| 0 <= k < t.len() - 1 ==> #[trigger] link(alg, t[k]@, t[k + 1]@))
    && t[t.len() - 1]@.len() <= 1
}
pub open spec fn pview(p: Seq<Vec<u8>>) -> Seq<Seq<u8>> { Seq::new(p.len(), |i: int| p[i]@) }
pub open spec fn bview(p: Seq<ByteBuf>) -> Seq<Seq<u8>> { Seq::new(p.len(), |i: int| p[i].0@) }
pub open spec fn nview(p: Seq<MerkleNode>) -> Seq<Seq<u8>> { Seq::new(p.len(), |i: int| p[i].0@) }

pub open spec fn proof_spec(t: Seq<Vec<MerkleNode>>, idx: int, k: int, left: int) -> Seq<Seq<u8>>
    decreases t.len() - k
{
    if k < 0 || k >= t.len() || left <= 0 { Seq::empty() }
    else {
        let layer = t[k]@;
        let sib = if idx % 2 == 1 { idx - 1 } else { idx + 1 };
        let head: Seq<Seq<u8>> = if 0 <= sib < layer.len() { seq![layer[sib].0@] } else { Seq::empty() };
        head + proof_spec(t, idx / 2, k + 1, left - 1)
    }
}

pub open spec fn playback(alg: Seq<char>, lay: Seq<usize>, stop: int, k: int, hash: Seq<u8>, idx: int, pf: Seq<Seq<u8>>, pi: int) -> Option<(Seq<u8>, int)>
    decreases lay.len() - k
{
    if k < 0 || k >= lay.len() || lay[k] as int == stop { Some((hash, idx)) }
    else {
        let layer = lay[k] as int;
        if idx % 2 == 1 {
            if idx - 1 < layer {
                if 0 <= pi < pf.len() { playback(alg, lay, stop, k + 1, H(alg, pf[pi] + hash), idx / 2, pf, pi + 1) } else { None }
            } else { playback(alg, lay, stop, k + 1, hash, idx / 2, pf, pi) }
        } else if idx + 1 < layer {
            if 0 <= pi < pf.len() { playback(alg, lay, stop, k + 1, H(alg, hash + pf[pi]), idx / 2, pf, pi + 1) } else { None }
        } else { playback(alg, lay, stop, k + 1, hash, idx / 2, pf, pi) }
    }
}
pub open spec fn climb(lay: Seq<usize>, stop: int, k: int, idx: int) -> int
    decreases lay.len() - k
{
    if k < 0 || k >= lay.len() || lay[k] as int == stop { idx } else { climb(lay, stop, k + 1, idx / 2) }
}
pub open spec fn accepts(hashes: Seq<Seq<u8>>, r: Option<(Seq<u8>, int)>) -> bool {
    r is Some && 0 <= r.unwrap().1 < hashes.len() && hashes[r.unwrap().1] == r.unwrap().0
}
pub open spec fn is_layout(lay: Seq<usize>, n: int) -> bool {
    lay.len() == layout(n).len() && forall|k: int| 0 <= k < lay.len() ==> #[trigger] lay[k] as int == layout(n)[k]
}
pub open spec fn sizes_match(t: Seq<Vec<MerkleNode>>, lay: Seq<usize>) -> bool {
    lay.len() == t.len() && forall|k: int| 0 <= k < t.len() ==> #[trigger] lay[k] as int == t[k]@.len()
}
pub open spec fn anc(idx: int, d: int) -> int decreases d { if d <= 0 { idx } else { anc(idx / 2, d - 1) } }
pub open spec fn sizes_from(t: Seq<Vec<MerkleNode>>, k: int) -> Seq<int> {
    Seq::new((t.len() - k) as nat, |j: int| t[k + j]@.len() as int)
}

// ============================ EXTRACTED (utils/merkle.rs) ============================
#[derive(Default, Clone, PartialEq, Debug)]
pub struct MerkleNode(pub Vec<u8>);

pub struct C2PAMerkleTree {
    pub leaves: Vec<MerkleNode>,
    pub layers: Vec<Vec<MerkleNode>>,
}

impl C2PAMerkleTree {
    // generate layer layout
    pub fn to_layout(num_leaves: usize) -> (r: Vec<usize>)
        ensures is_layout(r@, num_leaves as int), r@.len() <= usize::MAX,
    {
        let mut layers = Vec::new();

        layers.push(num_leaves);
        let mut current_layer = layers[0];

        while current_layer > 1
            invariant
                layers@.len() >= 1,
                current_layer == layers@[layers@.len() - 1],
                layout(num_leaves as int) =~= layers@.map_values(|x: usize| x as int).subrange(0, layers@.len() - 1).add(layout(current_layer as int)),
            decreases current_layer
        {
            let parent_layer_index = layers.len();
            let mut parent_layer_cnt: usize = 0;

            let mut __n = 0; while __n < current_layer
                invariant __n <= current_layer, __n % 2 == 0 || __n == current_layer,
                    parent_layer_cnt as int == half(__n as int),
                    parent_layer_cnt <= __n,
                decreases current_layer - __n
            { let i = __n; __n = if current_layer - __n > 2 { __n + 2 } else { current_layer };
                if i + 1 == current_layer {
                    parent_layer_cnt += 1;
                    continue;
                }

                parent_layer_cnt += 1;
            }
            layers.push(parent_layer_cnt);
            current_layer = layers[parent_layer_index];
        }

        proof { lemma_layout_len(num_leaves as int); }
        layers
    }

    fn generate_tree(alg: &str, leaves: &[MerkleNode]) -> (layers: Vec<Vec<MerkleNode>>)
        ensures wf(alg@, layers@), same_nodes(leaves@, layers@[0]@),
    {
        broadcast use axiom_merkle_node_clone;
        let mut layers = Vec::new();
        layers.push(leaves.to_vec()); // set layer 0
        let mut current_layer = &layers[0];

        while current_layer.len() > 1
            invariant
                layers@.len() >= 1,
                current_layer@ == layers@[layers@.len() - 1]@,
                same_nodes(leaves@, layers@[0]@),
                forall|k: int| 0 <= k < layers@.len() - 1 ==> #[trigger] link(alg@, layers@[k]@, layers@[k + 1]@),
            decreases current_layer@.len()
        {
            let parent_layer_index = layers.len();
            let mut parent_layer = Vec::new();

            let mut __n = 0; while __n < current_layer.len()
                invariant
                    __n <= current_layer@.len(), __n % 2 == 0 || __n == current_layer@.len(),
                    parent_layer@.len() == half(__n as int),
                    current_layer@.len() > 1,
                    partial_link(alg@, current_layer@, parent_layer@),
                decreases current_layer@.len() - __n
            { let i = __n; __n = if current_layer.len() - __n > 2 { __n + 2 } else { current_layer.len() };
                if i + 1 == current_layer.len() {
                    // just pass the current hash since last node is unbalanced
                    parent_layer.push(MerkleNode(current_layer[i].0.clone()));
                    continue;
                }
                let left = &current_layer[i];
                let right = if i + 1 == current_layer.len() {
                    left
                } else {
                    &current_layer[i + 1]
                };

                parent_layer.push(MerkleNode(concat_and_hash(alg, &left.0, Some(&right.0))));
            }
            layers.push(parent_layer);
            current_layer = &layers[parent_layer_index];
        }
        layers
    }

    pub fn get_proof_by_index(
        &self,
        leaf_indx: usize,
        max_proof_len: usize,
    ) -> (res: Result<Vec<Vec<u8>>>)
        ensures
            (self.leaves@.len() == 0 || leaf_indx >= self.leaves@.len()) <==> res is Err,
            res is Ok ==> pview(res.unwrap()@) == proof_spec(self.layers@, leaf_indx as int, 0, max_proof_len as int),
    {
        if self.leaves.is_empty() || leaf_indx >= self.leaves.len() {
            return Err(Error::BadParam(
                "Merkle proof index out of range".to_string(),
            ));
        }

        let mut proofs_left = max_proof_len;
        let mut proof: Vec<Vec<u8>> = Vec::new();
        let mut index = leaf_indx;

        for i in 0..self.layers.len()
            invariant
                pview(proof@) + proof_spec(self.layers@, index as int, i as int, proofs_left as int)
                    =~= proof_spec(self.layers@, leaf_indx as int, 0, max_proof_len as int),
            ensures
                pview(proof@) =~= proof_spec(self.layers@, leaf_indx as int, 0, max_proof_len as int),
        {
            if proofs_left == 0 {
                break;
            }

            let layer = &self.layers[i];
            let is_right = index % 2 == 1;

            if is_right {
                if index - 1 < layer.len() {
                    proof.push(layer[index - 1].0.clone());
                }
            } else if index + 1 < layer.len() {
                proof.push(layer[index + 1].0.clone());
            }
            index /= 2;
            proofs_left -= 1;
        }
        Ok(proof)
    }
}

// ============================ EXTRACTED (assertions/bmff_hash.rs) ============================
pub struct VecByteBuf(pub Vec<ByteBuf>);

impl Deref for VecByteBuf {
    type Target = Vec<ByteBuf>;

    fn deref(&self) -> (r: &Vec<ByteBuf>) ensures r@ == self.0@ {
        &self.0
    }
}

pub struct MerkleMap {
    pub count: usize,
    pub hashes: VecByteBuf,
}

impl MerkleMap {
    pub fn hash_check(&self, indx: usize, merkle_hash: &[u8]) -> (r: bool)
        ensures r == (indx < self.hashes.0@.len() && self.hashes.0@[indx as int].0@ == merkle_hash@)
    {
        if let Some(h) = self.hashes.get(indx) {
            vec_compare(h, merkle_hash)
        } else {
            false
        }
    }

    pub fn check_merkle_tree(
        &self,
        alg: &str,
        hash: &[u8],
        location: usize,
        proof_: &Option<VecByteBuf>,
    ) -> (r: bool)
        ensures
            forall|lay: Seq<usize>| #![trigger is_layout(lay, self.count as int)] is_layout(lay, self.count as int) ==> (
              (proof_ is Some ==> r == (location < self.count && accepts(bview(self.hashes.0@),
                 playback(alg@, lay, self.hashes.0@.len() as int, 0, hash@, location as int, bview(proof_.unwrap().0@), 0))))
              && (proof_ is None ==> r == (location < self.count && accepts(bview(self.hashes.0@),
                 Some((hash@, climb(lay, self.hashes.0@.len() as int, 0, location as int))))))),
    {
        broadcast use axiom_u8_clone;
        if location >= self.count {
            return false;
        }

        let ghost hash0 = hash@;
        let mut index = location;
        let mut hash_l = hash.to_vec();
        let layers = C2PAMerkleTree::to_layout(self.count);
        proof { lemma_layout_unique(layers@, self.count as int); }

        if let Some(hashes) = proof_ {
            // playback proof
            let mut proof_index = 0;
            for layer in it: layers
                invariant_except_break
                    playback(alg@, layers@, self.hashes.0@.len() as int, it.index@, hash_l@, index as int, bview(hashes.0@), proof_index as int)
                      == playback(alg@, layers@, self.hashes.0@.len() as int, 0, hash0, location as int, bview(hashes.0@), 0),
                    proof_index <= it.index@, it.index@ <= layers@.len(), layers@.len() <= usize::MAX, hash0 == hash@,
                    *proof_ == Some(*hashes), is_layout(layers@, self.count as int), location < self.count,
                    forall|lay: Seq<usize>| #![trigger is_layout(lay, self.count as int)] is_layout(lay, self.count as int) ==> lay == layers@,
                ensures
                    playback(alg@, layers@, self.hashes.0@.len() as int, 0, hash0, location as int, bview(hashes.0@), 0) == Some((hash_l@, index as int)),
            {
                let is_right = index % 2 == 1;

                if layer == self.hashes.len() {
                    break;
                }

                if is_right {
                    if index - 1 < layer {
                        // make sure proof structure is valid
                        if let Some(proof_hash) = hashes.get(proof_index) {
                            hash_l = concat_and_hash(alg, proof_hash, Some(&hash_l));
                            proof_index += 1;
                        } else {
                            return false;
                        }
                    }
                } else if index + 1 < layer {
                    // make sure proof structure is valid
                    if let Some(proof_hash) = hashes.get(proof_index) {
                        hash_l = concat_and_hash(alg, &hash_l, Some(proof_hash));
                        proof_index += 1;
                    } else {
                        return false;
                    }
                }

                index /= 2;
            }
        } else {
            //empty proof playback
            for layer in it: layers
                invariant_except_break
                    climb(layers@, self.hashes.0@.len() as int, it.index@, index as int) == climb(layers@, self.hashes.0@.len() as int, 0, location as int),
                    hash_l@ == hash0, hash0 == hash@, *proof_ == None::<VecByteBuf>, is_layout(layers@, self.count as int), location < self.count,
                    forall|lay: Seq<usize>| #![trigger is_layout(lay, self.count as int)] is_layout(lay, self.count as int) ==> lay == layers@,
                ensures
                    climb(layers@, self.hashes.0@.len() as int, 0, location as int) == index as int, hash_l@ == hash0,
            {
                if layer == self.hashes.len() {
                    break;
                }
                index /= 2;
            }
        }

        self.hash_check(index, &hash_l)
    }
}

// ============================ LEMMAS ============================
pub proof fn lemma_layout_len(n: int)
    requires n >= 0
    ensures layout(n).len() <= (if n >= 1 { n } else { 1 })
    decreases n
{
    if n > 1 { lemma_layout_len(half(n)); }
}

pub proof fn lemma_layout_unique(lay: Seq<usize>, n: int)
    requires is_layout(lay, n)
    ensures forall|l2: Seq<usize>| #![trigger is_layout(l2, n)] is_layout(l2, n) ==> l2 == lay
{
    assert forall|l2: Seq<usize>| #![trigger is_layout(l2, n)] is_layout(l2, n) implies l2 == lay by {
        assert(l2.len() == lay.len());
        assert forall|k: int| 0 <= k < l2.len() implies l2[k] == lay[k] by {
            assert(l2[k] as int == layout(n)[k]);
            assert(lay[k] as int == layout(n)[k]);
        }
        assert(l2 =~= lay);
    }
}

proof fn lemma_sizes_decrease(alg: Seq<char>, t: Seq<Vec<MerkleNode>>, j: int, r: int)
    requires wf(alg, t), 0 <= j < r < t.len(),
    ensures t[j]@.len() > t[r]@.len(),
    decreases r - j
{
    let k = r - 1;
    assert(link(alg, t[k]@, t[k + 1]@));
    if j < r - 1 { lemma_sizes_decrease(alg, t, j, r - 1); }
}

proof fn lemma_sizes_are_layout(alg: Seq<char>, t: Seq<Vec<MerkleNode>>, k: int)
    requires wf(alg, t), 0 <= k < t.len(),
    ensures layout(t[k]@.len() as int) =~= sizes_from(t, k),
    decreases t.len() - k
{
    if k == t.len() - 1 {
    } else {
        assert(link(alg, t[k]@, t[k + 1]@));
        lemma_sizes_are_layout(alg, t, k + 1);
        assert(sizes_from(t, k) =~= seq![t[k]@.len() as int].add(sizes_from(t, k + 1)));
    }
}

proof fn lemma_playback_complete(alg: Seq<char>, t: Seq<Vec<MerkleNode>>, lay: Seq<usize>, r: int, k: int, idx: int, pf: Seq<Seq<u8>>, pi: int)
    requires
        wf(alg, t), sizes_match(t, lay), 0 <= k <= r < t.len(), 0 <= idx < t[k]@.len(),
        0 <= pi <= pf.len(), pf.subrange(pi, pf.len() as int) =~= proof_spec(t, idx, k, r - k),
    ensures
        0 <= anc(idx, r - k) < t[r]@.len(),
        playback(alg, lay, t[r]@.len() as int, k, t[k]@[idx].0@, idx, pf, pi) == Some((t[r]@[anc(idx, r - k)].0@, anc(idx, r - k))),
    decreases r - k
{
    if k == r {
    } else {
        lemma_sizes_decrease(alg, t, k, r);
        assert(link(alg, t[k]@, t[k + 1]@));
        let layer = t[k]@;
        let up = t[k + 1]@;
        let j = idx / 2;
        assert(0 <= j < up.len());
        assert(up[j].0@ == parent_of(alg, layer, j));
        let sib = if idx % 2 == 1 { idx - 1 } else { idx + 1 };
        let rest = proof_spec(t, idx / 2, k + 1, r - k - 1);
        if 0 <= sib < layer.len() {
            assert(proof_spec(t, idx, k, r - k) =~= seq![layer[sib].0@] + rest);
            assert(pi < pf.len());
            assert(pf[pi] == pf.subrange(pi, pf.len() as int)[0]);
            assert(pf[pi] == layer[sib].0@);
            assert(pf.subrange(pi + 1, pf.len() as int) =~= pf.subrange(pi, pf.len() as int).subrange(1, pf.len() - pi));
            assert(pf.subrange(pi + 1, pf.len() as int) =~= rest);
            lemma_playback_complete(alg, t, lay, r, k + 1, j, pf, pi + 1);
        } else {
            assert(proof_spec(t, idx, k, r - k) =~= rest);
            lemma_playback_complete(alg, t, lay, r, k + 1, j, pf, pi);
        }
    }
}

// C16, first sentence: for any number of leaves and any stored row, the proof the SDK generates for
// each leaf verifies against the stored hashes at that leaf's index.
pub proof fn theorem_generated_proof_verifies(alg: Seq<char>, t: Seq<Vec<MerkleNode>>, lay: Seq<usize>, r: int, i: int)
    requires
        wf(alg, t), is_layout(lay, t[0]@.len() as int), 0 <= r < t.len(), 0 <= i < t[0]@.len(),
    ensures
        accepts(nview(t[r]@), playback(alg, lay, t[r]@.len() as int, 0, t[0]@[i].0@, i, proof_spec(t, i, 0, r), 0)),
{
    lemma_sizes_are_layout(alg, t, 0);
    assert(sizes_from(t, 0).len() == t.len());
    assert(sizes_match(t, lay)) by {
        assert forall|k: int| 0 <= k < t.len() implies #[trigger] lay[k] as int == t[k]@.len() by {
            assert(sizes_from(t, 0)[k] == t[0 + k]@.len());
        }
    }
    let pf = proof_spec(t, i, 0, r);
    assert(pf.subrange(0, pf.len() as int) =~= pf);
    lemma_playback_complete(alg, t, lay, r, 0, i, pf, 0);
}

// ---- leaf soundness, assuming H is injective ----
pub open spec fn h_injective() -> bool {
    forall|alg: Seq<char>, a: Seq<u8>, b: Seq<u8>| #[trigger] H(alg, a) == #[trigger] H(alg, b) ==> a == b
}

proof fn lemma_concat_cancel_left(p: Seq<u8>, x: Seq<u8>, y: Seq<u8>)
    requires p + x == p + y
    ensures x == y
{
    let a = p + x; let b = p + y;
    assert(a.len() == p.len() + x.len());
    assert(b.len() == p.len() + y.len());
    assert(x.len() == y.len());
    assert forall|i: int| 0 <= i < x.len() implies x[i] == y[i] by {
        assert(a[p.len() + i] == x[i]);
        assert(b[p.len() + i] == y[i]);
    }
    assert(x =~= y);
}
proof fn lemma_concat_cancel_right(p: Seq<u8>, x: Seq<u8>, y: Seq<u8>)
    requires x + p == y + p
    ensures x == y
{
    let a = x + p; let b = y + p;
    assert(a.len() == x.len() + p.len());
    assert(b.len() == y.len() + p.len());
    assert(x.len() == y.len());
    assert forall|i: int| 0 <= i < x.len() implies x[i] == y[i] by {
        assert(a[i] == x[i]);
        assert(b[i] == y[i]);
    }
    assert(x =~= y);
}

// with index and proof fixed, two leaf values that play back to the same result are equal
pub proof fn lemma_leaf_soundness(alg: Seq<char>, lay: Seq<usize>, stop: int, k: int, h1: Seq<u8>, h2: Seq<u8>, idx: int, pf: Seq<Seq<u8>>, pi: int)
    requires
        h_injective(),
        playback(alg, lay, stop, k, h1, idx, pf, pi) is Some,
        playback(alg, lay, stop, k, h1, idx, pf, pi) == playback(alg, lay, stop, k, h2, idx, pf, pi),
    ensures h1 == h2
    decreases lay.len() - k
{
    if k < 0 || k >= lay.len() || lay[k] as int == stop {
    } else {
        let layer = lay[k] as int;
        if idx % 2 == 1 {
            if idx - 1 < layer {
                if 0 <= pi < pf.len() {
                    lemma_leaf_soundness(alg, lay, stop, k + 1, H(alg, pf[pi] + h1), H(alg, pf[pi] + h2), idx / 2, pf, pi + 1);
                    assert(pf[pi] + h1 == pf[pi] + h2);
                    lemma_concat_cancel_left(pf[pi], h1, h2);
                }
            } else { lemma_leaf_soundness(alg, lay, stop, k + 1, h1, h2, idx / 2, pf, pi); }
        } else if idx + 1 < layer {
            if 0 <= pi < pf.len() {
                lemma_leaf_soundness(alg, lay, stop, k + 1, H(alg, h1 + pf[pi]), H(alg, h2 + pf[pi]), idx / 2, pf, pi + 1);
                assert(h1 + pf[pi] == h2 + pf[pi]);
                lemma_concat_cancel_right(pf[pi], h1, h2);
            }
        } else { lemma_leaf_soundness(alg, lay, stop, k + 1, h1, h2, idx / 2, pf, pi); }
    }
}

} // verus!
fn main() {}
