#[cfg(kani)]
mod verif_kani {
    use super::*;

    pub(super) fn spec_v4(x: u32) -> bool {
        let a = (x >> 24) as u8;
        let b = ((x >> 16) & 0xff) as u8;
        let c = ((x >> 8) & 0xff) as u8;
        a == 0 || a == 127 || a == 10 || (a == 172 && (b & 0xf0) == 16) || (a == 192 && b == 168)
            || (a == 169 && b == 254) || x == 0xffff_ffff
            || (a == 192 && b == 0 && c == 2) || (a == 198 && b == 51 && c == 100) || (a == 203 && b == 0 && c == 113)
            || (a & 0xf0) == 224 || (a == 100 && (b & 0xc0) == 64)
    }

    #[kani::proof_for_contract(ipv4_is_non_global)]
    fn v4_contract() {
        let x: u32 = kani::any();
        ipv4_is_non_global(Ipv4Addr::from(x));
    }

    // caller proved against the callee's contract only
    #[kani::proof]
    #[kani::stub_verified(ipv4_is_non_global)]
    fn ip_dispatch_uses_contract() {
        let x: u32 = kani::any();
        let r = ip_is_non_global(IpAddr::V4(Ipv4Addr::from(x)));
        assert!(r == spec_v4(x));
    }

    #[kani::proof]
    fn v4_classification() {
        let x: u32 = kani::any();
        let ip = Ipv4Addr::from(x);
        assert_eq!(ipv4_is_non_global(ip), spec_v4(x));
    }

    #[kani::proof]
    fn v6_classification() {
        let x: u128 = kani::any();
        let ip = Ipv6Addr::from(x);
        let seg0 = (x >> 112) as u16;
        let mapped = (x >> 32) == 0xffff;
        let spec = if mapped { spec_v4(x as u32) } else {
            x == 0 || x == 1 || (seg0 & 0xff00) == 0xff00 || (seg0 & 0xfe00) == 0xfc00 || (seg0 & 0xffc0) == 0xfe80
        };
        assert_eq!(ipv6_is_non_global(ip), spec);
    }

    use std::sync::atomic::{AtomicUsize, AtomicBool, Ordering};

    struct Script { calls: AtomicUsize, internal_hit: AtomicBool }
    impl SyncHttpResolver for Script {
        fn http_resolve(&self, request: Request<Vec<u8>>) -> Result<Response<Box<dyn Read>>, HttpResolverError> {
            self.calls.fetch_add(1, Ordering::SeqCst);
            if host_is_non_global(request.uri()) { self.internal_hit.store(true, Ordering::SeqCst); }
            let redirect: bool = kani::any();
            let body: Box<dyn Read> = Box::new(std::io::empty());
            if redirect {
                let internal: bool = kani::any();
                let loc = if internal { "http://127.0.0.1/x" } else { "http://example.com/y" };
                Ok(Response::builder().status(302).header(http::header::LOCATION, loc).body(body).unwrap())
            } else {
                Ok(Response::builder().status(200).body(body).unwrap())
            }
        }
    }

    #[kani::proof]
    #[kani::unwind(13)]
    fn redirect_hop_limit() {
        let allow: bool = kani::any();
        let r = RedirectResolver::new(Script { calls: AtomicUsize::new(0), internal_hit: AtomicBool::new(false) }, allow);
        let req = Request::get(Uri::from_static("http://example.com/a")).header(http::header::AUTHORIZATION, "s").body(Vec::new()).unwrap();
        let _ = r.http_resolve(req);
        assert!(r.inner.calls.load(Ordering::SeqCst) <= MAX_REDIRECTS + 1);
        if !allow { assert!(r.inner.calls.load(Ordering::SeqCst) <= 1); }
        assert!(!r.inner.internal_hit.load(Ordering::SeqCst));
    }

    #[kani::proof]
    #[kani::unwind(20)]
    fn pattern_matches_exact() {
        let p = HostPattern::new("a.b");
        let u = Uri::from_static("http://a.b/x");
        assert!(p.matches(&u));
        let u2 = Uri::from_static("http://c.a.b/x");
        assert!(!p.matches(&u2));
    }

    // ---- C26 enforcement ----
    static mut ALLOW: bool = false;
    fn stub_is_uri_allowed(_patterns: &[HostPattern], _uri: &Uri) -> bool { unsafe { ALLOW } }
    fn stub_sanitize(_v: &str) -> String { String::new() }
    struct Count { calls: AtomicUsize }
    impl SyncHttpResolver for Count {
        fn http_resolve(&self, _request: Request<Vec<u8>>) -> Result<Response<Box<dyn Read>>, HttpResolverError> {
            self.calls.fetch_add(1, Ordering::SeqCst);
            Err(HttpResolverError::SyncHttpResolverNotImplemented)
        }
    }

    #[kani::proof]
    #[kani::stub(is_uri_allowed, stub_is_uri_allowed)]
    #[kani::stub(crate::http::sanitize_for_log, stub_sanitize)]
    #[kani::unwind(3)]
    fn allow_list_enforced() {
        let allow: bool = kani::any();
        let has_list: bool = kani::any();
        unsafe { ALLOW = allow; }
        let mut r = RestrictedResolver::new(Count { calls: AtomicUsize::new(0) });
        if has_list { r.set_allowed_hosts(Some(Vec::new())); }
        let res = r.http_resolve(Request::new(Vec::new()));
        let calls = r.inner.calls.load(Ordering::SeqCst);
        if !has_list || allow {
            assert!(calls == 1);
            assert!(matches!(res, Err(HttpResolverError::SyncHttpResolverNotImplemented)));
        } else {
            assert!(calls == 0);
            assert!(matches!(res, Err(HttpResolverError::UriDisallowed { .. })));
        }
        std::mem::forget(res);
    }

    // ---- C27 host string kernels ----
    #[kani::proof]
    #[kani::unwind(6)]
    fn obfuscated_ip_spec() {
        const L: usize = 4;
        let b: [u8; L] = kani::any();
        let n: usize = kani::any();
        kani::assume(n <= L);
        let mut i = 0; while i < L { kani::assume(b[i] < 0x80); i += 1; }
        let s = std::str::from_utf8(&b[..n]).unwrap();
        let got = looks_like_obfuscated_ip(s);
        // spec: non-empty and (all digits/dots, or some dot-separated label starts with 0x / 0X)
        let mut all_num = n > 0; let mut hexlabel = false; let mut at_label_start = true;
        let mut k = 0;
        while k < n {
            let c = b[k];
            if !(c.is_ascii_digit() || c == b'.') { all_num = false; }
            if at_label_start && c == b'0' && k + 1 < n && (b[k + 1] == b'x' || b[k + 1] == b'X') { hexlabel = true; }
            at_label_start = c == b'.';
            k += 1;
        }
        assert!(got == (n > 0 && (all_num || hexlabel)));
    }
}
539:#[cfg_attr(kani, kani::ensures(|r: &bool| *r == verif_kani::spec_v4(u32::from(ip))))]
