#[cfg(kani)]
mod verif_kani {
    use super::*;

    fn spec_v4(x: u32) -> bool {
        let a = (x >> 24) as u8;
        let b = ((x >> 16) & 0xff) as u8;
        let c = ((x >> 8) & 0xff) as u8;
        a == 0 || a == 127 || a == 10 || (a == 172 && (b & 0xf0) == 16) || (a == 192 && b == 168)
            || (a == 169 && b == 254) || x == 0xffff_ffff
            || (a == 192 && b == 0 && c == 2) || (a == 198 && b == 51 && c == 100) || (a == 203 && b == 0 && c == 113)
            || (a & 0xf0) == 224 || (a == 100 && (b & 0xc0) == 64)
    }

    #[kani::proof]
    fn v4_classification() {
        let x: u32 = kani::any();
        let ip = Ipv4Addr::from(x);
        assert_eq!(ipv4_is_non_global(ip), spec_v4(x));
    }

    #[kani::proof]
    fn v6_classification() {
        let x: u128 = kani::any();
        let ip = Ipv6Addr::from(x);
        let seg0 = (x >> 112) as u16;
        let mapped = (x >> 32) == 0xffff;
        let spec = if mapped { spec_v4(x as u32) } else {
            x == 0 || x == 1 || (seg0 & 0xff00) == 0xff00 || (seg0 & 0xfe00) == 0xfc00 || (seg0 & 0xffc0) == 0xfe80
        };
        assert_eq!(ipv6_is_non_global(ip), spec);
    }

    use std::sync::atomic::{AtomicUsize, AtomicBool, Ordering};

    struct Script { calls: AtomicUsize, internal_hit: AtomicBool }
    impl SyncHttpResolver for Script {
        fn http_resolve(&self, request: Request<Vec<u8>>) -> Result<Response<Box<dyn Read>>, HttpResolverError> {
            self.calls.fetch_add(1, Ordering::SeqCst);
            if host_is_non_global(request.uri()) { self.internal_hit.store(true, Ordering::SeqCst); }
            let redirect: bool = kani::any();
            let body: Box<dyn Read> = Box::new(std::io::empty());
            if redirect {
                let internal: bool = kani::any();
                let loc = if internal { "http://127.0.0.1/x" } else { "http://example.com/y" };
                Ok(Response::builder().status(302).header(http::header::LOCATION, loc).body(body).unwrap())
            } else {
                Ok(Response::builder().status(200).body(body).unwrap())
            }
        }
    }

    #[kani::proof]
    #[kani::unwind(13)]
    fn redirect_hop_limit() {
        let allow: bool = kani::any();
        let r = RedirectResolver::new(Script { calls: AtomicUsize::new(0), internal_hit: AtomicBool::new(false) }, allow);
        let req = Request::get(Uri::from_static("http://example.com/a")).header(http::header::AUTHORIZATION, "s").body(Vec::new()).unwrap();
        let _ = r.http_resolve(req);
        assert!(r.inner.calls.load(Ordering::SeqCst) <= MAX_REDIRECTS + 1);
        if !allow { assert!(r.inner.calls.load(Ordering::SeqCst) <= 1); }
        assert!(!r.inner.internal_hit.load(Ordering::SeqCst));
    }

    #[kani::proof]
    #[kani::unwind(20)]
    fn pattern_matches_exact() {
        let p = HostPattern::new("a.b");
        let u = Uri::from_static("http://a.b/x");
        assert!(p.matches(&u));
        let u2 = Uri::from_static("http://c.a.b/x");
        assert!(!p.matches(&u2));
    }
}
