use vstd::prelude::*;
verus! {

#[derive(Debug)]
pub enum Error { BadParam(String), Other }
pub type Result<T> = core::result::Result<T, Error>;

#[derive(Default, Clone, PartialEq, Debug)]
pub struct MerkleNode(pub Vec<u8>);

pub struct C2PAMerkleTree {
    pub leaves: Vec<MerkleNode>,
    pub layers: Vec<Vec<MerkleNode>>,
}

pub open spec fn pview(p: Seq<Vec<u8>>) -> Seq<Seq<u8>> { Seq::new(p.len(), |i: int| p[i]@) }

// proof the SDK is supposed to emit for node `idx` of level `k`, with `left` entries allowed
pub open spec fn proof_spec(t: Seq<Vec<MerkleNode>>, idx: int, k: int, left: int) -> Seq<Seq<u8>>
    decreases t.len() - k
{
    if k < 0 || k >= t.len() || left <= 0 { Seq::empty() }
    else {
        let layer = t[k]@;
        let sib = if idx % 2 == 1 { idx - 1 } else { idx + 1 };
        let head: Seq<Seq<u8>> = if 0 <= sib < layer.len() { seq![layer[sib].0@] } else { Seq::empty() };
        head + proof_spec(t, idx / 2, k + 1, left - 1)
    }
}

impl C2PAMerkleTree {
    pub fn get_proof_by_index(
        &self,
        leaf_indx: usize,
        max_proof_len: usize,
    ) -> (res: Result<Vec<Vec<u8>>>)
        ensures
            (self.leaves@.len() == 0 || leaf_indx >= self.leaves@.len()) <==> res is Err,
            res is Ok ==> pview(res.unwrap()@) == proof_spec(self.layers@, leaf_indx as int, 0, max_proof_len as int),
    {
        if self.leaves.is_empty() || leaf_indx >= self.leaves.len() {
            return Err(Error::BadParam(
                "Merkle proof index out of range".to_string(),
            ));
        }

        let mut proofs_left = max_proof_len;
        let mut proof: Vec<Vec<u8>> = Vec::new();
        let mut index = leaf_indx;

        for i in 0..self.layers.len()
            invariant
                pview(proof@) + proof_spec(self.layers@, index as int, i as int, proofs_left as int)
                    =~= proof_spec(self.layers@, leaf_indx as int, 0, max_proof_len as int),
            ensures
                pview(proof@) =~= proof_spec(self.layers@, leaf_indx as int, 0, max_proof_len as int),
        {
            if proofs_left == 0 {
                break;
            }

            let layer = &self.layers[i];
            let is_right = index % 2 == 1;

            if is_right {
                if index - 1 < layer.len() {
                    proof.push(layer[index - 1].0.clone());
                }
            } else if index + 1 < layer.len() {
                proof.push(layer[index + 1].0.clone());
            }
            index /= 2;
            proofs_left -= 1;
        }
        Ok(proof)
    }
}

} // verus!
fn main() {}
