use vstd::prelude::*;
verus! {

#[derive(Debug)]
pub enum Error { JumbfCreationError, Other }
pub type Result<T> = core::result::Result<T, Error>;

#[verifier::external_body]
pub struct ByteBuf { v: Vec<u8> }
impl ByteBuf {
    pub uninterp spec fn view(&self) -> Seq<u8>;
    #[verifier::external_body]
    pub fn from(v: Vec<u8>) -> (r: ByteBuf) ensures r.view() == v@ { ByteBuf { v } }
}

#[verifier::external_body]
pub struct Assertion { d: Vec<u8> }
impl Assertion {
    pub uninterp spec fn spec_data(&self) -> Seq<u8>;
    #[verifier::external_body]
    pub fn data(&self) -> (r: &[u8]) ensures r@ == self.spec_data() { &self.d }
}

pub struct DataHash {
    pub hash: Vec<u8>,
    pub pad: Vec<u8>,
    pub pad2: Option<ByteBuf>,
}

pub open spec fn hdr(n: int) -> int {
    if n < 24 { 1 } else if n < 256 { 2 } else if n < 65536 { 3 } else if n < 4294967296 { 5 } else { 9 }
}
pub uninterp spec fn base_size(h: Seq<u8>) -> int;
pub open spec fn p2cost(p: Option<ByteBuf>) -> int {
    if p is Some { 5 + hdr(p.unwrap().view().len() as int) + p.unwrap().view().len() } else { 0 }
}
pub open spec fn cbor_size(dh: &DataHash) -> int {
    base_size(dh.hash@) + hdr(dh.pad@.len() as int) + dh.pad@.len() + p2cost(dh.pad2)
}

impl DataHash {
    #[verifier::external_body]
    pub fn to_assertion(&self) -> (r: Result<Assertion>)
        ensures r is Ok, r.unwrap().spec_data().len() == cbor_size(self)
    { unimplemented!() }

    pub fn pad_to_size(&mut self, desired_size: usize) -> (res: Result<()>)
        requires old(self).pad@.len() + desired_size < 0x7fff_ffff, base_size(old(self).hash@) >= 0,
          base_size(old(self).hash@) < 0x7fff_ffff,
          old(self).pad2 is Some ==> old(self).pad2.unwrap().view().len() < 0x7fff_ffff,
        ensures res is Ok ==> cbor_size(final(self)) == desired_size,
           final(self).hash@ == old(self).hash@,
           // totality from a fresh assertion
           (old(self).pad2 is None && cbor_size(old(self)) <= desired_size) ==> res is Ok,
           // second stage: enough room and not an unreachable residue
           (old(self).pad@.len() == 0 && old(self).pad2 is Some && cbor_size(old(self)) <= desired_size
              && reachable(desired_size - cbor_size(old(self)))) ==> res is Ok,
        decreases (if old(self).pad2 is None { 1int } else { 0int }), 0int
    {
        let mut curr_size = self.to_assertion()?.data().len();

        // this should not happen
        if curr_size > desired_size {
            return Err(Error::JumbfCreationError);
        }

        let mut last_pad = 0;
        loop
            invariant_except_break
               curr_size == cbor_size(self), self.hash@ == old(self).hash@,
               self.pad2 == old(self).pad2,
               self.pad@.len() == old(self).pad@.len() + last_pad,
               old(self).pad@.len() + desired_size < 0x7fff_ffff,
               base_size(self.hash@) >= 0,
               last_pad <= desired_size + 3,
               curr_size <= desired_size + 3,
               (curr_size > desired_size) ==> (last_pad > 0 && jump(self.pad@.len() as int) && curr_size - desired_size <= 2 && cbor_size(self) - delta(self.pad@.len() as int) < desired_size),
            ensures curr_size == desired_size, curr_size == cbor_size(self), self.hash@ == old(self).hash@,
            decreases (if curr_size <= desired_size { desired_size - curr_size + 4 } else { 0 }) 
        {
            if curr_size == desired_size {
                break;
            }

            if desired_size > curr_size {
                self.pad.push(0x0);
                curr_size = self.to_assertion()?.data().len();
                last_pad += 1;
            } else {
                match &self.pad2 {
                    Some(_pad2) => return Err(Error::JumbfCreationError),
                    None => {
                        // if we reach here we need a new second padding object to hit exact size
                        self.pad.clear();
                        let pad2_size = last_pad / 2; // spit across two pads
                        self.pad2 = Some(ByteBuf::from(vec![0u8; pad2_size]));
                        return self.pad_to_size(desired_size);
                    }
                }
            }
        }

        Ok(())
    }
}

pub open spec fn jump(n: int) -> bool { n == 24 || n == 256 || n == 65536 || n == 4294967296 }
pub open spec fn delta(n: int) -> int { hdr(n) - hdr(n-1) + 1 }
// residue r is reachable by a single pad starting from empty: exists n. hdr(n)+n - 1 == r
pub open spec fn reachable(r: int) -> bool { r >= 0 && r != 24 && r != 257 && r != 65538 && r != 65539 }

} // verus!
fn main() {}
