use vstd::prelude::*;
verus! {
#[derive(Debug)]
pub enum Error { RemoteManifestUrl(String), JumbfNotFound, Other }
pub type Result<T> = core::result::Result<T, Error>;

pub struct Verify { pub remote_manifest_fetch: bool }
pub struct Settings { pub verify: Verify }
pub struct Context { pub settings: Settings }
impl Context { pub fn settings(&self) -> (r: &Settings) ensures r == &self.settings { &self.settings } }

pub struct Store {}
impl Store {
    #[verifier::external_body] pub fn is_valid_remote_url(url: &str) -> bool { unimplemented!() }

    // effect guard: the network fetch may only be called when the configuration enables it
    #[verifier::external_body]
    pub fn fetch_remote_manifest(url: &str, context: &Context) -> Result<Vec<u8>>
        requires context.settings.verify.remote_manifest_fetch
    { unimplemented!() }

    // EXTRACTED (rule X5: sync expansion; rule X6: cfg(feature = "fetch_remote_manifests") = on)
    fn handle_remote_manifest(ext_ref: &str, _context: &Context) -> (res: Result<Vec<u8>>)
        ensures !_context.settings.verify.remote_manifest_fetch ==> res is Err,
                (!_context.settings.verify.remote_manifest_fetch && res is Err) ==> (res matches Err(Error::RemoteManifestUrl(u)) ==> u@ == ext_ref@),
    {
        // verify provenance path is remote url
        if Store::is_valid_remote_url(ext_ref) {
            {
                // Everything except browser wasm if fetch_remote_manifests is enabled
                if _context.settings().verify.remote_manifest_fetch {
                    if true {
                        Store::fetch_remote_manifest(ext_ref, _context)
                    } else {
                        Store::fetch_remote_manifest(ext_ref, _context)
                    }
                } else {
                    Err(Error::RemoteManifestUrl(ext_ref.to_owned()))
                }
            }
        } else {
            Err(Error::JumbfNotFound)
        }
    }
}
}
fn main() {}
