#[cfg(kani)]
mod verif_kani {
    use super::*;

    // container_from_format depends on a lazy_static HashMap of handler prototypes: replace it by an
    // arbitrary-but-fixed function of the hint (chosen once per harness run).
    static mut HINTED: Option<&'static str> = None;
    static mut RESULT_IS_HINT: bool = false;
    fn stub_container_from_format(format: &str) -> Option<&'static str> {
        // "hint" is the only string ever passed by format_from_stream
        let _ = format;
        unsafe { HINTED }
    }

    const IDS: [&str; 9] = ["jpg", "png", "gif", "tif", "jxl", "avi", "avif", "flac", "mp3"];

    #[kani::proof]
    #[kani::stub(container_from_format, stub_container_from_format)]
    #[kani::unwind(5)]
    fn hint_independent() {
        let data: [u8; 20] = kani::any();
        let len: usize = kani::any();
        kani::assume(len <= 20);
        let mut cur = Cursor::new(&data[..len]);
        let detected = container_from_stream(&mut cur);
        kani::assert(cur.position() == 0, "stream rewound");
        let hsel: usize = kani::any();
        kani::assume(hsel <= IDS.len());
        unsafe { HINTED = if hsel == IDS.len() { None } else { Some(IDS[hsel]) }; }
        let out = format_from_stream("zz", &mut cur);
        match detected {
            Some(d) => {
                // result is either the canonical id of the detected container, or the hint when the hint's container == detected
                let hinted = unsafe { HINTED };
                if hinted == Some(d) { assert!(out == "zz"); } else { assert!(out == d); }
            }
            None => assert!(out == "zz"),
        }
        kani::cover!(detected == Some("png"));
        kani::cover!(detected == Some("flac"));
        kani::cover!(detected.is_none());
    }

    // ---- C35: read-granularity independence of sniffing ----
    struct Pieces<'a> { data: &'a [u8], pos: usize }
    impl<'a> Read for Pieces<'a> {
        fn read(&mut self, buf: &mut [u8]) -> std::io::Result<usize> {
            let left = self.data.len() - self.pos;
            if left == 0 || buf.is_empty() { return Ok(0); }
            let max = if buf.len() < left { buf.len() } else { left };
            let n: usize = kani::any();
            kani::assume(n >= 1 && n <= max);
            let mut i = 0; while i < n { buf[i] = self.data[self.pos + i]; i += 1; }
            self.pos += n;
            Ok(n)
        }
    }
    impl<'a> Seek for Pieces<'a> {
        fn seek(&mut self, p: std::io::SeekFrom) -> std::io::Result<u64> {
            match p {
                std::io::SeekFrom::Start(s) => { self.pos = if (s as usize) < self.data.len() { s as usize } else { self.data.len() }; }
                _ => { kani::assume(false); }
            }
            Ok(self.pos as u64)
        }
    }

    #[kani::proof]
    #[kani::unwind(18)]
    fn sniff_independent_of_piece_size() {
        let data: [u8; 16] = kani::any();
        // keep the ID3 branch (extra seek + read_exact) out of this harness
        kani::assume(!(data[0] == b'I' && data[1] == b'D' && data[2] == b'3'));
        let mut whole = Cursor::new(&data[..]);
        let mut pieces = Pieces { data: &data[..], pos: 0 };
        let a = container_from_stream(&mut whole);
        let b = container_from_stream(&mut pieces);
        assert!(a == b);
    }

    // ---- replay slot ----
    /// Test generated for harness `jumbf_io::verif_kani::sniff_independent_of_piece_size` 
    ///
    /// Check for `assertion`: "assertion failed: a == b"
    
    #[test]
    fn kani_concrete_playback_sniff_independent_of_piece_size_10860241446886693177() {
        let concrete_vals: Vec<Vec<u8>> = vec![
            // 137
            vec![137],
            // 80
            vec![80],
            // 78
            vec![78],
            // 71
            vec![71],
            // 13
            vec![13],
            // 10
            vec![10],
            // 26
            vec![26],
            // 10
            vec![10],
            // 13
            vec![13],
            // 10
            vec![10],
            // 135
            vec![135],
            // 10
            vec![10],
            // 0
            vec![0],
            // 0
            vec![0],
            // 0
            vec![0],
            // 0
            vec![0],
            // 1ul
            vec![1, 0, 0, 0, 0, 0, 0, 0],
        ];
        kani::concrete_playback_run(concrete_vals, sniff_independent_of_piece_size);
    }
}
