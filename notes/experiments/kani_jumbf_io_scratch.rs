#[cfg(kani)]
mod verif_kani {
    use super::*;

    // container_from_format depends on a lazy_static HashMap of handler prototypes: replace it by an
    // arbitrary-but-fixed function of the hint (chosen once per harness run).
    static mut HINTED: Option<&'static str> = None;
    static mut RESULT_IS_HINT: bool = false;
    fn stub_container_from_format(format: &str) -> Option<&'static str> {
        // "hint" is the only string ever passed by format_from_stream
        let _ = format;
        unsafe { HINTED }
    }

    const IDS: [&str; 9] = ["jpg", "png", "gif", "tif", "jxl", "avi", "avif", "flac", "mp3"];

    #[kani::proof]
    #[kani::stub(container_from_format, stub_container_from_format)]
    #[kani::unwind(5)]
    fn hint_independent() {
        let data: [u8; 20] = kani::any();
        let len: usize = kani::any();
        kani::assume(len <= 20);
        let mut cur = Cursor::new(&data[..len]);
        let detected = container_from_stream(&mut cur);
        kani::assert(cur.position() == 0, "stream rewound");
        let hsel: usize = kani::any();
        kani::assume(hsel <= IDS.len());
        unsafe { HINTED = if hsel == IDS.len() { None } else { Some(IDS[hsel]) }; }
        let out = format_from_stream("zz", &mut cur);
        match detected {
            Some(d) => {
                // result is either the canonical id of the detected container, or the hint when the hint's container == detected
                let hinted = unsafe { HINTED };
                if hinted == Some(d) { assert!(out == "zz"); } else { assert!(out == d); }
            }
            None => assert!(out == "zz"),
        }
        kani::cover!(detected == Some("png"));
        kani::cover!(detected == Some("flac"));
        kani::cover!(detected.is_none());
    }
}
