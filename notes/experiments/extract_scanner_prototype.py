import re, sys
def strip_map(src):
    """return a string of same length where comments/strings/chars are blanked (keeps braces only in code)"""
    out=list(src); i=0; n=len(src)
    def blank(a,b):
        for k in range(a,b):
            if out[k]!='\n': out[k]=' '
    while i<n:
        c=src[i]
        if src.startswith('//',i):
            j=src.find('\n',i); j=n if j<0 else j; blank(i,j); i=j
        elif src.startswith('/*',i):
            depth=1; j=i+2
            while j<n and depth>0:
                if src.startswith('/*',j): depth+=1; j+=2
                elif src.startswith('*/',j): depth-=1; j+=2
                else: j+=1
            blank(i,j); i=j
        elif c=='"' or (c in 'b' and src.startswith('b"',i)) :
            j=i+ (2 if c=='b' else 1)
            while j<n and src[j]!='"':
                j+= 2 if src[j]=='\\' else 1
            blank(i,j+1); i=j+1
        elif c=='r' and re.match(r'r#*"',src[i:i+10]):
            m=re.match(r'r(#*)"',src[i:]); h=m.group(1); end='"'+h
            j=src.find(end,i+len(m.group(0))); blank(i,j+len(end)); i=j+len(end)
        elif c=="'":
            # char literal or lifetime
            m=re.match(r"'(\\.[^']*|[^'\\])'",src[i:])
            if m: blank(i,i+len(m.group(0))); i+=len(m.group(0))
            else: i+=1
        elif c=='b' and src.startswith("b'",i):
            m=re.match(r"b'(\\.[^']*|[^'\\])'",src[i:])
            if m: blank(i,i+len(m.group(0))); i+=len(m.group(0))
            else: i+=1
        else: i+=1
    return ''.join(out)

def find_fn(src, code, name, within=None):
    """find `fn name` (optionally inside an impl header regex), return (start_of_item_incl_attrs, body_open, body_close)"""
    lo,hi=0,len(src)
    if within:
        m=re.search(within, code)
        if not m: return None
        o=code.index('{',m.end()-1) if code[m.end()-1]!='{' else m.end()-1
        lo=o; hi=match(code,o)
    m=re.search(r'\bfn\s+'+re.escape(name)+r'\b', code[lo:hi])
    if not m: return None
    s=lo+m.start()
    o=code.index('{',s)
    # skip where-clause braces? (none expected before body)
    c=match(code,o)
    return s,o,c
def match(code,o):
    d=0
    for k in range(o,len(code)):
        if code[k]=='{': d+=1
        elif code[k]=='}':
            d-=1
            if d==0: return k
    raise Exception('unbalanced')

targets=[
 ('sdk/src/utils/merkle.rs','to_layout',None),('sdk/src/utils/merkle.rs','generate_tree',None),('sdk/src/utils/merkle.rs','get_proof_by_index',None),
 ('sdk/src/utils/merkle.rs','add_merkle_leaf',None),
 ('sdk/src/assertions/bmff_hash.rs','check_merkle_tree',None),('sdk/src/assertions/bmff_hash.rs','hash_check',None),
 ('sdk/src/assertions/data_hash.rs','pad_to_size',None),('sdk/src/assertions/data_hash.rs','verify_stream_hash_with_progress',None),
 ('sdk/src/builder.rs','sign_embeddable',None),
 ('sdk/src/settings/mod.rs','update_from_str',None),('sdk/src/settings/mod.rs','set_value',None),
 ('sdk/src/http/restricted.rs','redirect_target',None),
 ('sdk/src/http/restricted.rs','http_resolve',r'impl<T: SyncHttpResolver> SyncHttpResolver for RedirectResolver<T> \{'),
 ('sdk/src/http/restricted.rs','http_resolve',r'impl<T: SyncHttpResolver> SyncHttpResolver for RestrictedResolver<T> \{'),
 ('sdk/src/store.rs','handle_remote_manifest',None),
 ('sdk/src/utils/hash_utils.rs','hash_stream_by_alg_with_progress_impl',None),
 ('sdk/src/validation_results.rs','validation_state',None),
 ('sdk/src/jumbf_io.rs','container_from_stream',None),('sdk/src/jumbf_io.rs','format_from_stream',None),
 ('sdk/src/crypto/cose/sign.rs','pad_cose_sig',None),
 ('sdk/src/claim.rs','verify_hash_binding',None),
]
import hashlib
for f,name,within in targets:
    src=open('/repo/'+f).read(); code=strip_map(src)
    assert len(code)==len(src)
    r=find_fn(src,code,name,within)
    if not r: print('MISSING',f,name); continue
    s,o,c=r
    body=src[o:c+1]
    l1=src.count('\n',0,s)+1; l2=src.count('\n',0,c)+1
    loops=len(re.findall(r'\b(for|while|loop)\b', code[o:c+1]))
    stepby=len(re.findall(r'for\s+\w+\s+in\s+\(.*?\)\.step_by\(', code[o:c+1]))
    print(f"{f}:{l1}-{l2} fn {name}: {l2-l1+1} lines, loops={loops}, step_by={stepby}, sha={hashlib.sha256(body.encode()).hexdigest()[:12]}, ends_with={src[c-20:c+1].strip()[-12:]!r}")
