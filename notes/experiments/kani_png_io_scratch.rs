#[cfg(kani)]
mod verif_kani {
    use super::*;

    #[kani::proof]
    #[kani::unwind(4)]
    fn chunk_positions_cover_file() {
        const N: usize = 34;
        let mut data: [u8; N] = kani::any();
        data[..8].copy_from_slice(&PNG_ID);
        let len: usize = kani::any();
        kani::assume(len >= 8 && len <= N);
        let mut cur = Cursor::new(&data[..len]);
        let r = get_png_chunk_positions(&mut cur);
        if let Ok(ps) = &r {
            // ordered, contiguous from 8, inside file
            let mut pos: u64 = 8;
            for pc in ps.iter() {
                assert!(pc.start == pos);
                pos = pc.start + pc.length as u64 + 12;
                assert!(pos <= len as u64);
            }
            // the property's covering clause: chunks reach the end of the file
            assert!(pos == len as u64);
        }
        kani::cover!(r.is_ok());
        std::mem::forget(r);
    }
}
