#[cfg(kani)]
mod verif_kani {
    use super::*;

    // C17 contract of add_merkle_leaf, written through hash_by_alg so that the same text is the
    // identity-hash contract under Kani (hash_by_alg stubbed) and the SHA-256 contract natively.
    fn contract_holds(payload: &[u8], cuts: &[usize], fixed: Option<usize>) -> bool {
        let mut acc = MerkleAccumulator::default();
        acc.fixed_size = fixed;
        let mut prev = 0usize;
        for &c in cuts {
            if acc.add_merkle_leaf(0, false, &payload[prev..c]).is_err() { return false; }
            prev = c;
        }
        if acc.add_merkle_leaf(0, false, &payload[prev..]).is_err() { return false; }
        let body: &[u8] = if payload.len() > 8 { &payload[8..] } else { &[] };
        match fixed {
            Some(fs) => {
                let leaves = acc.merkle_leaves.get(&0).cloned().unwrap_or_default();
                let rem = acc.fixed_size_remainder.get(&0).cloned().unwrap_or_default();
                if leaves.len() != body.len() / fs || rem.len() != body.len() % fs { return false; }
                for (k, (len, h)) in leaves.iter().enumerate() {
                    if *len as usize != fs || *h != hash_by_alg("sha256", &body[k * fs..(k + 1) * fs], None) { return false; }
                }
                rem[..] == body[leaves.len() * fs..]
            }
            None => true,
        }
    }

    #[test]
    fn bounded_exhaustive_two_and_three_way_splits() {
        let payload: Vec<u8> = (1u8..=20).collect();
        let mut n = 0usize; let mut bad: Vec<String> = Vec::new();
        for fs in [2usize, 3, 5] {
            for a in 0..=payload.len() {
                n += 1;
                if !contract_holds(&payload, &[a], Some(fs)) { bad.push(format!("fs={fs} cuts=[{a}]")); }
                for b in a..=payload.len() {
                    n += 1;
                    if !contract_holds(&payload, &[a, b], Some(fs)) { bad.push(format!("fs={fs} cuts=[{a},{b}]")); }
                }
            }
        }
        println!("ENGINE-B add_merkle_leaf: evaluated={} violations={} first={:?}", n, bad.len(), bad.iter().take(6).collect::<Vec<_>>());
    }
}

#[cfg(test)]
mod verif_scratch_tests {
    #![allow(clippy::unwrap_used)]
    use super::*;

    fn leaves_fixed(chunks: &[&[u8]], fixed: usize) -> (Vec<(u64, Vec<u8>)>, Option<Vec<u8>>) {
        let mut acc = MerkleAccumulator::default();
        acc.fixed_size = Some(fixed);
        for c in chunks { acc.add_merkle_leaf(0, false, c).unwrap(); }
        (acc.merkle_leaves.get(&0).cloned().unwrap_or_default(), acc.fixed_size_remainder.get(&0).cloned())
    }

    #[test]
    fn s1_short_first_chunk() {
        let payload: Vec<u8> = (0u8..40).collect();
        let whole = leaves_fixed(&[&payload], 4);
        for k in 0..=12usize {
            let split = leaves_fixed(&[&payload[..k], &payload[k..]], 4);
            println!("S1 split at {k}: same_as_whole={} leaves={} rem={:?}", split == whole, split.0.len(), split.1.as_ref().map(|r| r.len()));
        }
    }
}
