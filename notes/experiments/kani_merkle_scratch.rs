#[cfg(kani)]
mod verif_kani {
    use super::*;

    // identity "hash": leaf preimage is recorded instead of its digest
    fn stub_hash_by_alg(_alg: &str, data: &[u8], _ex: Option<Vec<crate::hash_utils::HashRange>>) -> Vec<u8> {
        data.to_vec()
    }

    #[kani::proof]
    #[kani::stub(crate::utils::hash_utils::hash_by_alg, stub_hash_by_alg)]
    #[kani::unwind(5)]
    fn two_chunks_fixed() {
        const N: usize = 11;
        let payload: [u8; N] = kani::any();
        let split: usize = kani::any();
        kani::assume(split <= N);
        let mut acc = MerkleAccumulator::default();
        acc.fixed_size = Some(2);
        let r1 = acc.add_merkle_leaf(0, false, &payload[..split]);
        let r2 = acc.add_merkle_leaf(0, false, &payload[split..]);
        assert!(r1.is_ok() && r2.is_ok());
        // concatenation of leaves + remainder must equal payload[8..]
        let mut out: Vec<u8> = Vec::new();
        if let Some(ls) = acc.merkle_leaves.get(&0) {
            for (len, h) in ls { assert!(*len as usize == h.len()); assert!(h.len() == 2); out.extend_from_slice(h); }
        }
        if let Some(r) = acc.fixed_size_remainder.get(&0) { out.extend_from_slice(r); }
        assert!(out.len() == N - 8);
        let mut i = 0; while i < N - 8 { assert!(out[i] == payload[8 + i]); i += 1; }
        std::mem::forget(r1); std::mem::forget(r2); std::mem::forget(acc); std::mem::forget(out);
    }
}

#[cfg(test)]
mod verif_scratch_tests {
    #![allow(clippy::unwrap_used)]
    use super::*;

    fn leaves_fixed(chunks: &[&[u8]], fixed: usize) -> (Vec<(u64, Vec<u8>)>, Option<Vec<u8>>) {
        let mut acc = MerkleAccumulator::default();
        acc.fixed_size = Some(fixed);
        for c in chunks { acc.add_merkle_leaf(0, false, c).unwrap(); }
        (acc.merkle_leaves.get(&0).cloned().unwrap_or_default(), acc.fixed_size_remainder.get(&0).cloned())
    }

    #[test]
    fn s1_short_first_chunk() {
        let payload: Vec<u8> = (0u8..40).collect();
        let whole = leaves_fixed(&[&payload], 4);
        for k in 0..=12usize {
            let split = leaves_fixed(&[&payload[..k], &payload[k..]], 4);
            println!("S1 split at {k}: same_as_whole={} leaves={} rem={:?}", split == whole, split.0.len(), split.1.as_ref().map(|r| r.len()));
        }
    }
}
