#[cfg(kani)]
mod verif_kani {
    use super::*;

    // identity "hash": leaf preimage is recorded instead of its digest
    fn stub_hash_by_alg(_alg: &str, data: &[u8], _ex: Option<Vec<crate::hash_utils::HashRange>>) -> Vec<u8> {
        data.to_vec()
    }

    #[kani::proof]
    #[kani::stub(crate::utils::hash_utils::hash_by_alg, stub_hash_by_alg)]
    #[kani::unwind(14)]
    fn two_chunks_fixed() {
        const N: usize = 12;
        let payload: [u8; N] = kani::any();
        let split: usize = kani::any();
        kani::assume(split <= N);
        let mut acc = MerkleAccumulator::default();
        acc.fixed_size = Some(2);
        acc.add_merkle_leaf(0, false, &payload[..split]).unwrap();
        acc.add_merkle_leaf(0, false, &payload[split..]).unwrap();
        // concatenation of leaves + remainder must equal payload[8..]
        let mut out: Vec<u8> = Vec::new();
        if let Some(ls) = acc.merkle_leaves.get(&0) {
            for (len, h) in ls { assert!(*len as usize == h.len()); assert!(h.len() == 2); out.extend_from_slice(h); }
        }
        if let Some(r) = acc.fixed_size_remainder.get(&0) { out.extend_from_slice(r); }
        assert!(out.len() == N - 8);
        let mut i = 0; while i < N - 8 { assert!(out[i] == payload[8 + i]); i += 1; }
    }
}
