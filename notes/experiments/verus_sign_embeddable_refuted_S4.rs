use vstd::prelude::*;
verus! {

#[derive(Debug)]
pub enum Error { BadParam(String), Other }
pub type Result<T> = core::result::Result<T, Error>;

#[verifier::external_body] pub struct Store { _p: u8 }
#[verifier::external_body] pub struct Context { _p: u8 }
#[verifier::external_body] pub struct DataHash { _p: u8 }
#[verifier::external_body] pub struct BmffHash { _p: u8 }
#[verifier::external_body] pub struct BoxHash { _p: u8 }
#[verifier::external_body] pub struct DynAssertions { _p: u8 }
#[verifier::external_body] pub struct SignerRef { _p: u8 }

impl DataHash { pub const LABEL: &'static str = "c2pa.hash.data"; }
impl BmffHash { pub const LABEL: &'static str = "c2pa.hash.bmff"; }
impl BoxHash { pub const LABEL: &'static str = "c2pa.hash.boxes"; }

impl DynAssertions {
    #[verifier::external_body] pub fn is_empty(&self) -> bool { unimplemented!() }
}
impl SignerRef {
    #[verifier::external_body] pub fn dynamic_assertions(&self) -> DynAssertions { unimplemented!() }
}
impl Context {
    #[verifier::external_body] pub fn signer(&self) -> Result<&SignerRef> { unimplemented!() }
}
pub uninterp spec fn composed_len(jumbf_len: int, format: Seq<char>) -> int;
impl Store {
    #[verifier::external_body] pub fn add_dynamic_assertion_placeholders(&mut self, d: &DynAssertions) -> Result<()> { unimplemented!() }
    #[verifier::external_body] pub fn sign_manifest(&mut self, signer: &SignerRef, context: &Context) -> Result<Vec<u8>> { unimplemented!() }
    #[verifier::external_body] pub fn get_composed_manifest(manifest_bytes: &[u8], format: &str) -> (r: Result<Vec<u8>>)
        ensures r is Ok ==> r.unwrap()@.len() == composed_len(manifest_bytes@.len() as int, format@)
    { unimplemented!() }
}



pub struct Builder { pub placeholder_jumbf_len: Option<usize>, pub ctx: Context }

impl Builder {
    #[verifier::external_body] pub fn find_assertion<T>(&self, label: &str) -> Result<T> { unimplemented!() }
    #[verifier::external_body] pub fn to_store(&self) -> Result<Store> { unimplemented!() }
    #[verifier::external_body] pub fn context(&self) -> &Context { &self.ctx }

    pub fn sign_embeddable(&self, format: &str) -> (res: Result<Vec<u8>>)
        ensures (self.placeholder_jumbf_len is Some && res is Ok) ==>
            res.unwrap()@.len() == composed_len(self.placeholder_jumbf_len.unwrap() as int, format@)
    {
        let placeholder_jumbf_len = self.placeholder_jumbf_len;

        // Check that a valid hard binding exists in Mode 2 (no placeholder).
        if placeholder_jumbf_len.is_none() {
            let has_binding = self.find_assertion::<DataHash>(DataHash::LABEL).is_ok()
                || self.find_assertion::<BmffHash>(BmffHash::LABEL).is_ok()
                || self.find_assertion::<BoxHash>(BoxHash::LABEL).is_ok();
            if !has_binding {
                return Err(Error::BadParam(
                    "No hard binding assertion found. Call update_hash_from_stream() or \
                     add a DataHash/BmffHash/BoxHash assertion before sign_embeddable()."
                        .to_string(),
                ));
            }
        }

        // Build a fresh store from Builder state (contains the real hash assertions).
        let mut store = self.to_store()?;

        // Add dynamic assertion placeholder slots so sign_manifest() will write them.
        let signer = self.context().signer()?;
        let dynamic_assertions = signer.dynamic_assertions();
        if !dynamic_assertions.is_empty() {
            store.add_dynamic_assertion_placeholders(&dynamic_assertions)?;
        }

        let mut jumbf = store.sign_manifest(signer, self.context())?;

        if let Some(len) = placeholder_jumbf_len {
            if jumbf.len() < len {
                jumbf.resize(len, 0u8);
            }
        }

        Store::get_composed_manifest(&jumbf, format)
    }
}

} // verus!
fn main() {}
