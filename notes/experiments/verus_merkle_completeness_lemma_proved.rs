use vstd::prelude::*;
verus! {

pub struct MerkleNode(pub Vec<u8>);
pub uninterp spec fn H(alg: Seq<char>, data: Seq<u8>) -> Seq<u8>;
pub open spec fn half(n: int) -> int { (n + 1) / 2 }

pub open spec fn parent_of(alg: Seq<char>, layer: Seq<MerkleNode>, j: int) -> Seq<u8> {
    if 2 * j + 1 < layer.len() { H(alg, layer[2 * j].0@ + layer[2 * j + 1].0@) } else { layer[2 * j].0@ }
}
pub open spec fn link(alg: Seq<char>, lo: Seq<MerkleNode>, hi: Seq<MerkleNode>) -> bool {
    lo.len() > 1 && hi.len() == half(lo.len() as int)
    && forall|j: int| 0 <= j < hi.len() ==> (#[trigger] hi[j]).0@ == parent_of(alg, lo, j)
}
pub open spec fn wf(alg: Seq<char>, t: Seq<Vec<MerkleNode>>) -> bool {
    t.len() >= 1
    && (forall|k: int| 0 <= k < t.len() - 1 ==> #[trigger] link(alg, t[k]@, t[k + 1]@))
    && t[t.len() - 1]@.len() <= 1
}

pub open spec fn proof_spec(t: Seq<Vec<MerkleNode>>, idx: int, k: int, left: int) -> Seq<Seq<u8>>
    decreases t.len() - k
{
    if k < 0 || k >= t.len() || left <= 0 { Seq::empty() }
    else {
        let layer = t[k]@;
        let sib = if idx % 2 == 1 { idx - 1 } else { idx + 1 };
        let head: Seq<Seq<u8>> = if 0 <= sib < layer.len() { seq![layer[sib].0@] } else { Seq::empty() };
        head + proof_spec(t, idx / 2, k + 1, left - 1)
    }
}

pub open spec fn playback(alg: Seq<char>, lay: Seq<usize>, stop: int, k: int, hash: Seq<u8>, idx: int, pf: Seq<Seq<u8>>, pi: int) -> Option<(Seq<u8>, int)>
    decreases lay.len() - k
{
    if k < 0 || k >= lay.len() || lay[k] as int == stop { Some((hash, idx)) }
    else {
        let layer = lay[k] as int;
        if idx % 2 == 1 {
            if idx - 1 < layer {
                if 0 <= pi < pf.len() { playback(alg, lay, stop, k + 1, H(alg, pf[pi] + hash), idx / 2, pf, pi + 1) } else { None }
            } else { playback(alg, lay, stop, k + 1, hash, idx / 2, pf, pi) }
        } else if idx + 1 < layer {
            if 0 <= pi < pf.len() { playback(alg, lay, stop, k + 1, H(alg, hash + pf[pi]), idx / 2, pf, pi + 1) } else { None }
        } else { playback(alg, lay, stop, k + 1, hash, idx / 2, pf, pi) }
    }
}

pub open spec fn sizes_match(t: Seq<Vec<MerkleNode>>, lay: Seq<usize>) -> bool {
    lay.len() == t.len() && forall|k: int| 0 <= k < t.len() ==> #[trigger] lay[k] as int == t[k]@.len()
}

pub open spec fn anc(idx: int, d: int) -> int decreases d { if d <= 0 { idx } else { anc(idx / 2, d - 1) } }

proof fn lemma_sizes_decrease(alg: Seq<char>, t: Seq<Vec<MerkleNode>>, j: int, r: int)
    requires wf(alg, t), 0 <= j < r < t.len(),
    ensures t[j]@.len() > t[r]@.len(),
    decreases r - j
{
    let k = r - 1;
    assert(link(alg, t[k]@, t[k + 1]@));
    if j < r - 1 { lemma_sizes_decrease(alg, t, j, r - 1); }
}

// Completeness, generalised to start at level k with the suffix of the proof
proof fn lemma_playback_complete(alg: Seq<char>, t: Seq<Vec<MerkleNode>>, lay: Seq<usize>, r: int, k: int, idx: int, pf: Seq<Seq<u8>>, pi: int)
    requires
        wf(alg, t), sizes_match(t, lay), 0 <= k <= r < t.len(), 0 <= idx < t[k]@.len(),
        0 <= pi <= pf.len(), pf.subrange(pi, pf.len() as int) =~= proof_spec(t, idx, k, r - k),
    ensures
        0 <= anc(idx, r - k) < t[r]@.len(),
        playback(alg, lay, t[r]@.len() as int, k, t[k]@[idx].0@, idx, pf, pi) == Some((t[r]@[anc(idx, r - k)].0@, anc(idx, r - k))),
    decreases r - k
{
    if k == r {
    } else {
        lemma_sizes_decrease(alg, t, k, r);
        assert(link(alg, t[k]@, t[k + 1]@));
        let layer = t[k]@;
        let up = t[k + 1]@;
        let j = idx / 2;
        assert(0 <= j < up.len());
        assert(up[j].0@ == parent_of(alg, layer, j));
        let sib = if idx % 2 == 1 { idx - 1 } else { idx + 1 };
        let rest = proof_spec(t, idx / 2, k + 1, r - k - 1);
        if 0 <= sib < layer.len() {
            assert(proof_spec(t, idx, k, r - k) =~= seq![layer[sib].0@] + rest);
            assert(pi < pf.len());
            assert(pf[pi] == pf.subrange(pi, pf.len() as int)[0]);
            assert(pf[pi] == layer[sib].0@);
            assert(pf.subrange(pi + 1, pf.len() as int) =~= pf.subrange(pi, pf.len() as int).subrange(1, pf.len() - pi));
            assert(pf.subrange(pi + 1, pf.len() as int) =~= rest);
            lemma_playback_complete(alg, t, lay, r, k + 1, j, pf, pi + 1);
        } else {
            assert(proof_spec(t, idx, k, r - k) =~= rest);
            lemma_playback_complete(alg, t, lay, r, k + 1, j, pf, pi);
        }
    }
}

} // verus!
fn main() {}
