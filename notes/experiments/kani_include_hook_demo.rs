fn secret(x: u8) -> u8 { x.wrapping_add(1) }
#[cfg(kani)]
mod verif_kani { include!(concat!(env!("C2PA_VERIF_DIR"), "/h.rs")); }
