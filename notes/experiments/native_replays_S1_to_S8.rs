// Native replay tests used to confirm S1-S7, S10 (scratch copy of /repo; each snippet was pasted into the named file's test module).
// Run: cargo test --offline --no-default-features --features openssl,file_io -p c2pa --lib verif_scratch -- --nocapture


// ---- sdk/src/utils/merkle.rs ----
#[cfg(test)]
mod verif_scratch_tests {
    #![allow(clippy::unwrap_used)]
    use super::*;

    fn leaves_fixed(chunks: &[&[u8]], fixed: usize) -> (Vec<(u64, Vec<u8>)>, Option<Vec<u8>>) {
        let mut acc = MerkleAccumulator::default();
        acc.fixed_size = Some(fixed);
        for c in chunks { acc.add_merkle_leaf(0, false, c).unwrap(); }
        (acc.merkle_leaves.get(&0).cloned().unwrap_or_default(), acc.fixed_size_remainder.get(&0).cloned())
    }

    #[test]
    fn s1_short_first_chunk() {
        let payload: Vec<u8> = (0u8..40).collect();
        let whole = leaves_fixed(&[&payload], 4);
        for k in 0..=12usize {
            let split = leaves_fixed(&[&payload[..k], &payload[k..]], 4);
            println!("S1 split at {k}: same_as_whole={} leaves={} rem={:?}", split == whole, split.0.len(), split.1.as_ref().map(|r| r.len()));
        }
    }
}

// ---- sdk/src/utils/hash_utils.rs ----
#[cfg(test)]
mod verif_scratch_tests {
    #![allow(clippy::unwrap_used)]
    use super::*;

    fn sha(x: &[u8]) -> Vec<u8> { let mut h = Hasher::new("sha256").unwrap(); h.update(x); Hasher::finalize(h) }

    #[test]
    fn s2_past_end_not_last() {
        let data = vec![7u8; 50];
        let r = hash_stream_by_alg("sha256", &mut Cursor::new(&data), Some(vec![HashRange::new(0, 100), HashRange::new(5, 1)]), true);
        println!("S2 exclusion [(0,100),(5,1)] on 50 bytes -> {:?}", r.as_ref().map(|v| v.len()));
        let r2 = hash_stream_by_alg("sha256", &mut Cursor::new(&data), Some(vec![HashRange::new(0, 100)]), true);
        println!("S2 exclusion [(0,100)] on 50 bytes -> {:?}", r2.as_ref().map(|v| v.len()));
        let r3 = hash_stream_by_alg("sha256", &mut Cursor::new(&data), Some(vec![HashRange::new(10, 100), HashRange::new(20, 1)]), true);
        println!("S2 exclusion [(10,100),(20,1)] on 50 bytes -> ok={} equals_hash_of_first_10={}", r3.is_ok(), r3.as_ref().map(|v| *v == sha(&data[..10])).unwrap_or(false));
    }

    #[test]
    fn s3_marker_single_byte() {
        let data: Vec<u8> = (0u8..20).collect();
        // exclude [0,10) and [11,20): only byte 10 included; marker at 10
        let mut m = HashRange::new(10, 1); m.set_bmff_offset(10);
        let r = hash_stream_by_alg("sha256", &mut Cursor::new(&data), Some(vec![HashRange::new(0, 10), HashRange::new(11, 9), m]), true).unwrap();
        let mut expect = Vec::new(); expect.extend_from_slice(&10u64.to_be_bytes()); expect.push(data[10]);
        let mut twice = Vec::new(); twice.extend_from_slice(&10u64.to_be_bytes()); twice.extend_from_slice(&10u64.to_be_bytes());
        println!("S3 single byte at marker: equals offset++byte = {}, equals offset++offset = {}", r == sha(&expect), r == sha(&twice));
        // marker before first included byte
        let mut m2 = HashRange::new(2, 1); m2.set_bmff_offset(2);
        let r = hash_stream_by_alg("sha256", &mut Cursor::new(&data), Some(vec![HashRange::new(0, 5), m2]), true).unwrap();
        let mut with = Vec::new(); with.extend_from_slice(&2u64.to_be_bytes()); with.extend_from_slice(&data[5..]);
        println!("S3 marker inside leading exclusion: hashed with marker = {}, marker dropped = {}", r == sha(&with), r == sha(&data[5..]));
    }
}

// ---- sdk/src/crypto/cose/sign.rs ----
#[cfg(test)]
mod verif_scratch_tests {
    #![allow(clippy::unwrap_used)]
    use super::*;
    #[test]
    fn s7_pad_cose_sig_all_reserves() {
        let mut base = CoseSign1::default();
        base.signature = vec![7u8; 64];
        let cur = base.clone().to_tagged_vec().unwrap().len();
        let mut errs = Vec::new(); let mut wrong = Vec::new(); let mut panics = Vec::new();
        for end in cur..=cur + 70_000 {
            let mut s = base.clone();
            let r = std::panic::catch_unwind(std::panic::AssertUnwindSafe(|| pad_cose_sig(&mut s, Some(end))));
            match r {
                Err(_) => panics.push(end - cur),
                Ok(Err(_)) => errs.push(end - cur),
                Ok(Ok(v)) => if v.len() != end { wrong.push(end - cur) },
            }
        }
        println!("S7 pad_cose_sig base={} : errors at +{:?} ; wrong size at +{:?} ; panics at +{:?}", cur,
            errs.iter().take(20).collect::<Vec<_>>(), wrong.iter().take(20).collect::<Vec<_>>(), panics.iter().take(20).collect::<Vec<_>>());
        println!("S7 counts: errors={} wrong={} panics={}", errs.len(), wrong.len(), panics.len());
        // contiguous bands of failing offsets
        let mut bands: Vec<(usize, usize)> = Vec::new();
        for &e in &errs { match bands.last_mut() { Some((_, hi)) if *hi + 1 == e => *hi = e, _ => bands.push((e, e)) } }
        println!("S7 error bands (offset above unpadded size): {:?}", bands.iter().take(40).collect::<Vec<_>>());
    }
}

// ---- sdk/src/builder.rs (tests module) ----
#[test]
    fn verif_scratch_s4_embeddable_longer_than_placeholder() -> Result<()> {
        let mut builder = Builder::default().with_definition(simple_manifest_json())?;
        let composed_placeholder = builder.placeholder("application/c2pa")?;
        let ph_len = composed_placeholder.len();
        // twelve exclusions with offsets that need 5-byte CBOR integers
        let mut ex = Vec::new();
        for i in 0..12u64 { ex.push(HashRange::new(70_000 + i * 1_000, 300)); }
        builder.set_data_hash_exclusions(ex)?;
        let mut stream = Cursor::new(vec![7u8; 100_000]);
        builder.update_hash_from_stream("application/c2pa", &mut stream)?;
        let r = builder.sign_embeddable("application/c2pa");
        match &r {
            Ok(v) => println!("S4 placeholder={} signed={} longer={}", ph_len, v.len(), v.len() > ph_len),
            Err(e) => println!("S4 placeholder={} sign_embeddable Err: {e}", ph_len),
        }
        // 10 exclusions, the number the placeholder reserves room for
        let mut builder = Builder::default().with_definition(simple_manifest_json())?;
        let composed_placeholder = builder.placeholder("image/jpeg")?;
        let ph_len = composed_placeholder.len();
        let mut ex = Vec::new();
        for i in 0..10u64 { ex.push(HashRange::new(70_000 + i * 1_000, 300)); }
        builder.set_data_hash_exclusions(ex)?;
        let mut stream = Cursor::new(vec![7u8; 100_000]);
        builder.update_hash_from_stream("image/jpeg", &mut stream)?;
        let r = builder.sign_embeddable("image/jpeg");
        match &r {
            Ok(v) => println!("S4b(10 ranges, jpeg) placeholder={} signed={} longer={}", ph_len, v.len(), v.len() > ph_len),
            Err(e) => println!("S4b placeholder={} sign_embeddable Err: {e}", ph_len),
        }
        Ok(())
    }

#[test]
    fn verif_scratch_s5_boxhash_trailing_data_end_to_end() -> Result<()> {
        let ctx = Context::new().with_settings(serde_json::json!({"builder": {"prefer_box_hash": true}}).to_string())?;
        let mut builder = Builder::from_context(ctx).with_definition(simple_manifest_json().as_str())?;
        let mut stream = Cursor::new(TEST_IMAGE_CLEAN);
        builder.update_hash_from_stream("image/jpeg", &mut stream)?;
        let manifest_bytes = builder.sign_embeddable("image/jpeg")?;
        let boxes = {
            stream.rewind()?;
            let c2pa_io = jumbf_io::get_assetio_handler("image/jpeg").unwrap();
            c2pa_io.asset_box_hash_ref().unwrap().get_box_map(&mut stream)?
        };
        let c2pa_box_map = boxes.iter().find(|b| b.names.first().is_some_and(|n| n == "C2PA")).unwrap();
        let mut embedded = Vec::new();
        let mut source_stream = Cursor::new(TEST_IMAGE_CLEAN);
        patch_stream(&mut source_stream, &mut embedded, c2pa_box_map.range_start, c2pa_box_map.range_len, &manifest_bytes)?;
        let r0 = Reader::default().with_stream("image/jpeg", Cursor::new(embedded.clone()))?;
        println!("S5e2e untouched: state={:?}", r0.validation_state());
        // (a) append bytes after the end of the JPEG
        let mut appended = embedded.clone();
        appended.extend_from_slice(b"APPENDED-PAYLOAD-AFTER-EOI-0123456789");
        let r1 = Reader::default().with_stream("image/jpeg", Cursor::new(appended));
        println!("S5e2e appended 37 bytes: {:?}", r1.as_ref().map(|r| r.validation_state()).map_err(|e| e.to_string()));
        // (b) control: flip a byte inside the image data
        let mut flipped = embedded.clone();
        let n = flipped.len(); flipped[n - 100] ^= 0x55;
        let r2 = Reader::default().with_stream("image/jpeg", Cursor::new(flipped));
        println!("S5e2e flipped one image byte: {:?}", r2.as_ref().map(|r| r.validation_state()).map_err(|e| e.to_string()));
        Ok(())
    }

// ---- sdk/src/assertions/box_hash.rs (tests module) ----
#[test]
    fn verif_scratch_s5_trailing_data() {
        for (name, tail) in [("libpng-test.png", &b"TRAILING-GARBAGE"[..]), ("CA.jpg", &b"TRAILING-GARBAGE"[..]), ("sample1.gif", &b"TRAILING-GARBAGE"[..])] {
            let ap = fixture_path(name);
            let bhp = get_assetio_handler_from_path(&ap).unwrap().asset_box_hash_ref().unwrap();
            let mut data = std::fs::read(&ap).unwrap();
            let mut bh = BoxHash { boxes: Vec::new() };
            let mut cur = std::io::Cursor::new(data.clone());
            bh.generate_box_hash_from_stream(&mut cur, "sha256", bhp, false).unwrap();
            // append bytes after the end of the file
            data.extend_from_slice(tail);
            let mut cur2 = std::io::Cursor::new(data.clone());
            let r = bh.verify_stream_hash(&mut cur2, Some("sha256"), bhp);
            // coverage of the box map
            let mut cur3 = std::io::Cursor::new(data.clone());
            let bm = bhp.get_box_map(&mut cur3).unwrap();
            let covered_end = bm.iter().map(|b| b.range_start + b.range_len).max().unwrap_or(0);
            println!("S5 {name}: verify after appending {} bytes -> ok={} ; file_len={} last_box_end={}", tail.len(), r.is_ok(), data.len(), covered_end);
        }
    }

// ---- sdk/src/reader.rs (tests module) ----
#[test]
    fn verif_scratch_s6_cancel_every_callback_on_read() -> Result<()> {
        use std::sync::atomic::{AtomicUsize, Ordering};
        // count callbacks of a full read
        let n = Arc::new(AtomicUsize::new(0));
        let n2 = Arc::clone(&n);
        let ctx = Context::new().with_progress_callback(move |_p, _s, _t| { n2.fetch_add(1, Ordering::SeqCst); true });
        let r = Reader::from_context(ctx).with_stream("image/jpeg", std::io::Cursor::new(IMAGE_COMPLEX_MANIFEST))?;
        let total = n.load(Ordering::SeqCst);
        println!("S6 full read: callbacks={} state={:?}", total, r.validation_state());
        let mut swallowed = Vec::new();
        for k in 0..total {
            let c = Arc::new(AtomicUsize::new(0));
            let c2 = Arc::clone(&c);
            let phase_at_k = Arc::new(std::sync::Mutex::new(None));
            let ph2 = Arc::clone(&phase_at_k);
            let ctx = Context::new().with_progress_callback(move |p, s, t| {
                let i = c2.fetch_add(1, Ordering::SeqCst);
                if i == k { *ph2.lock().unwrap() = Some((p, s, t)); false } else { true }
            });
            let res = Reader::from_context(ctx).with_stream("image/jpeg", std::io::Cursor::new(IMAGE_COMPLEX_MANIFEST));
            match res {
                Err(Error::OperationCancelled) => {}
                Err(e) => swallowed.push(format!("k={k} at {:?}: Err({e})", phase_at_k.lock().unwrap())),
                Ok(r) => swallowed.push(format!("k={k} at {:?}: Ok state={:?} failures={:?}", phase_at_k.lock().unwrap(), r.validation_state(),
                    r.validation_results().and_then(|v| v.active_manifest().map(|a| a.failure().iter().map(|f| f.code().to_string()).collect::<Vec<_>>())))),
            }
        }
        println!("S6 cancel-at-k results not reported as OperationCancelled: {} of {}", swallowed.len(), total);
        for s in swallowed.iter().take(12) { println!("S6   {s}"); }
        Ok(())
    }

// ---- sdk/src/jumbf/boxes.rs (tests module) ----
#[test]
    fn verif_scratch_s8_nested_largesize_overflow() {
        // outer jumb { jumd("ab") , inner jumb with size==1 and largesize==u64::MAX }
        let mut jumd = Vec::new();
        let label = b"ab\0";
        let jumd_len = 8 + 16 + 1 + label.len();
        jumd.extend_from_slice(&(jumd_len as u32).to_be_bytes());
        jumd.extend_from_slice(b"jumd");
        jumd.extend_from_slice(&[0u8; 16]);
        jumd.push(3); // toggles: requestable + label
        jumd.extend_from_slice(label);
        let mut inner = Vec::new();
        inner.extend_from_slice(&1u32.to_be_bytes());
        inner.extend_from_slice(b"jumb");
        inner.extend_from_slice(&u64::MAX.to_be_bytes());
        let total = 8 + jumd.len() + inner.len();
        let mut buf = Vec::new();
        buf.extend_from_slice(&(total as u32).to_be_bytes());
        buf.extend_from_slice(b"jumb");
        buf.extend_from_slice(&jumd);
        buf.extend_from_slice(&inner);
        let r = std::panic::catch_unwind(|| {
            let mut c = Cursor::new(buf.clone());
            BoxReader::read_super_box(&mut c).is_ok()
        });
        println!("S8 nested largesize=u64::MAX -> {}", match r { Ok(ok) => format!("returned ok={ok}"), Err(_) => "PANICKED".to_string() });
    }
