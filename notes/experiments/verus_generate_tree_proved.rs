use vstd::prelude::*;
verus! {

#[derive(Default, Clone, PartialEq, Debug)]
pub struct MerkleNode(pub Vec<u8>);

pub uninterp spec fn H(alg: Seq<char>, data: Seq<u8>) -> Seq<u8>;

pub open spec fn half(n: int) -> int { (n + 1) / 2 }

pub open spec fn parent_of(alg: Seq<char>, layer: Seq<MerkleNode>, j: int) -> Seq<u8> {
    if 2 * j + 1 < layer.len() { H(alg, layer[2 * j].0@ + layer[2 * j + 1].0@) } else { layer[2 * j].0@ }
}

pub open spec fn partial_link(alg: Seq<char>, lo: Seq<MerkleNode>, hi: Seq<MerkleNode>) -> bool {
    forall|j: int| 0 <= j < hi.len() ==> (#[trigger] hi[j]).0@ == parent_of(alg, lo, j)
}

pub open spec fn link(alg: Seq<char>, lo: Seq<MerkleNode>, hi: Seq<MerkleNode>) -> bool {
    lo.len() > 1 && hi.len() == half(lo.len() as int)
    && forall|j: int| 0 <= j < hi.len() ==> (#[trigger] hi[j]).0@ == parent_of(alg, lo, j)
}

pub open spec fn same_nodes(a: Seq<MerkleNode>, b: Seq<MerkleNode>) -> bool {
    a.len() == b.len() && forall|i: int| 0 <= i < a.len() ==> (#[trigger] a[i]).0@ == b[i].0@
}

pub open spec fn wf(alg: Seq<char>, t: Seq<Vec<MerkleNode>>) -> bool {
    t.len() >= 1
    && (forall|k: int| 0 <= k < t.len() - 1 ==> #[trigger] link(alg, t[k]@, t[k + 1]@))
    && t[t.len() - 1]@.len() <= 1
}

#[verifier::external_body]
pub fn concat_and_hash(alg: &str, left: &[u8], right: Option<&[u8]>) -> (r: Vec<u8>)
    ensures right is Some ==> r@ == H(alg@, left@ + right.unwrap()@),
            right is None ==> r@ == H(alg@, left@),
{ unimplemented!() }

pub uninterp spec fn clone_eq<T>(a: Seq<T>, b: Seq<T>) -> bool;
pub assume_specification<T: Clone> [<[T]>::to_vec] (s: &[T]) -> (r: Vec<T>)
    ensures clone_eq(s@, r@);
#[verifier::external_body]
pub broadcast proof fn axiom_merkle_node_clone(a: Seq<MerkleNode>, b: Seq<MerkleNode>)
    requires #[trigger] clone_eq(a, b)
    ensures same_nodes(a, b)
{}

// ---- extracted: C2PAMerkleTree::generate_tree (X2 applied once) ----
    fn generate_tree(alg: &str, leaves: &[MerkleNode]) -> (layers: Vec<Vec<MerkleNode>>)
        ensures wf(alg@, layers@), same_nodes(leaves@, layers@[0]@),
    {
        broadcast use axiom_merkle_node_clone;
        let mut layers = Vec::new();
        layers.push(leaves.to_vec()); // set layer 0
        let mut current_layer = &layers[0];

        while current_layer.len() > 1
            invariant
                layers@.len() >= 1,
                current_layer@ == layers@[layers@.len() - 1]@,
                same_nodes(leaves@, layers@[0]@),
                forall|k: int| 0 <= k < layers@.len() - 1 ==> #[trigger] link(alg@, layers@[k]@, layers@[k + 1]@),
            decreases current_layer@.len()
        {
            let parent_layer_index = layers.len();
            let mut parent_layer = Vec::new();

            let mut __n = 0; while __n < current_layer.len()
                invariant
                    __n <= current_layer@.len(), __n % 2 == 0 || __n == current_layer@.len(),
                    parent_layer@.len() == half(__n as int),
                    current_layer@.len() > 1,
                    partial_link(alg@, current_layer@, parent_layer@),
                decreases current_layer@.len() - __n
            { let i = __n; __n = if current_layer.len() - __n > 2 { __n + 2 } else { current_layer.len() };
                if i + 1 == current_layer.len() {
                    // just pass the current hash since last node is unbalanced
                    parent_layer.push(MerkleNode(current_layer[i].0.clone()));
                    continue;
                }
                let left = &current_layer[i];
                let right = if i + 1 == current_layer.len() {
                    left
                } else {
                    &current_layer[i + 1]
                };

                parent_layer.push(MerkleNode(concat_and_hash(alg, &left.0, Some(&right.0))));
            }
            layers.push(parent_layer);
            current_layer = &layers[parent_layer_index];
        }
        layers
    }

} // verus!
fn main() {}
