use vstd::prelude::*;
use std::ops::Deref;
verus! {

pub uninterp spec fn H(alg: Seq<char>, data: Seq<u8>) -> Seq<u8>;

// ---- dependency shim: serde_bytes::ByteBuf is a newtype over Vec<u8> with Deref<Target = Vec<u8>> ----
pub struct ByteBuf(pub Vec<u8>);
impl Deref for ByteBuf {
    type Target = Vec<u8>;
    fn deref(&self) -> (r: &Vec<u8>) ensures r@ == self.0@ { &self.0 }
}

// ---- extracted: VecByteBuf + Deref impl ----
pub struct VecByteBuf(pub Vec<ByteBuf>);

impl Deref for VecByteBuf {
    type Target = Vec<ByteBuf>;

    fn deref(&self) -> (r: &Vec<ByteBuf>) ensures r@ == self.0@ {
        &self.0
    }
}

#[verifier::external_body]
pub fn concat_and_hash(alg: &str, left: &[u8], right: Option<&[u8]>) -> (r: Vec<u8>)
    ensures right is Some ==> r@ == H(alg@, left@ + right.unwrap()@),
            right is None ==> r@ == H(alg@, left@),
{ unimplemented!() }

pub uninterp spec fn clone_eq<T>(a: Seq<T>, b: Seq<T>) -> bool;
pub assume_specification<T: Clone> [<[T]>::to_vec] (s: &[T]) -> (r: Vec<T>)
    ensures clone_eq(s@, r@);
#[verifier::external_body]
pub broadcast proof fn axiom_u8_clone(a: Seq<u8>, b: Seq<u8>)
    requires #[trigger] clone_eq(a, b)
    ensures a == b
{}

#[verifier::external_body]
pub fn vec_compare(va: &[u8], vb: &[u8]) -> (r: bool) ensures r == (va@ == vb@) { unimplemented!() }

pub uninterp spec fn layout_spec(n: usize) -> Seq<usize>;
#[verifier::external_body]
pub fn to_layout(num_leaves: usize) -> (r: Vec<usize>) ensures r@ == layout_spec(num_leaves), r@.len() < usize::MAX { unimplemented!() }

pub open spec fn bview(p: Seq<ByteBuf>) -> Seq<Seq<u8>> { Seq::new(p.len(), |i: int| p[i].0@) }

pub open spec fn playback(alg: Seq<char>, lay: Seq<usize>, stop: int, k: int, hash: Seq<u8>, idx: int, pf: Seq<Seq<u8>>, pi: int) -> Option<(Seq<u8>, int)>
    decreases lay.len() - k
{
    if k < 0 || k >= lay.len() || lay[k] as int == stop { Some((hash, idx)) }
    else {
        let layer = lay[k] as int;
        if idx % 2 == 1 {
            if idx - 1 < layer {
                if 0 <= pi < pf.len() { playback(alg, lay, stop, k + 1, H(alg, pf[pi] + hash), idx / 2, pf, pi + 1) } else { None }
            } else { playback(alg, lay, stop, k + 1, hash, idx / 2, pf, pi) }
        } else if idx + 1 < layer {
            if 0 <= pi < pf.len() { playback(alg, lay, stop, k + 1, H(alg, hash + pf[pi]), idx / 2, pf, pi + 1) } else { None }
        } else { playback(alg, lay, stop, k + 1, hash, idx / 2, pf, pi) }
    }
}

pub open spec fn climb(lay: Seq<usize>, stop: int, k: int, idx: int) -> int
    decreases lay.len() - k
{
    if k < 0 || k >= lay.len() || lay[k] as int == stop { idx } else { climb(lay, stop, k + 1, idx / 2) }
}

pub open spec fn accepts(hashes: Seq<Seq<u8>>, r: Option<(Seq<u8>, int)>) -> bool {
    r is Some && 0 <= r.unwrap().1 < hashes.len() && hashes[r.unwrap().1] == r.unwrap().0
}

pub struct MerkleMap {
    pub count: usize,
    pub hashes: VecByteBuf,
}

impl MerkleMap {
    pub fn hash_check(&self, indx: usize, merkle_hash: &[u8]) -> (r: bool)
        ensures r == (indx < self.hashes.0@.len() && self.hashes.0@[indx as int].0@ == merkle_hash@)
    {
        if let Some(h) = self.hashes.get(indx) {
            vec_compare(h, merkle_hash)
        } else {
            false
        }
    }

    pub fn check_merkle_tree(
        &self,
        alg: &str,
        hash: &[u8],
        location: usize,
        proof_: &Option<VecByteBuf>,
    ) -> (r: bool)
        ensures
            proof_ is Some ==> r == (location < self.count && accepts(bview(self.hashes.0@),
                 playback(alg@, layout_spec(self.count), self.hashes.0@.len() as int, 0, hash@, location as int, bview(proof_.unwrap().0@), 0))),
            proof_ is None ==> r == (location < self.count && accepts(bview(self.hashes.0@),
                 Some((hash@, climb(layout_spec(self.count), self.hashes.0@.len() as int, 0, location as int))))),
    {
        broadcast use axiom_u8_clone;
        if location >= self.count {
            return false;
        }

        let ghost hash0 = hash@; let ghost hash_param = hash@;
        let mut index = location;
        let mut hash_l = hash.to_vec();
        let layers = to_layout(self.count);

        if let Some(hashes) = proof_ {
            // playback proof
            let mut proof_index = 0;
            for layer in it: layers
                invariant_except_break
                    playback(alg@, layers@, self.hashes.0@.len() as int, it.index@, hash_l@, index as int, bview(hashes.0@), proof_index as int)
                      == playback(alg@, layers@, self.hashes.0@.len() as int, 0, hash0, location as int, bview(hashes.0@), 0),
                    proof_index <= it.index@, it.index@ <= layers@.len(), hash0 == hash_param, hash0 == hash@, location < self.count, layers@.len() < usize::MAX,
                    *proof_ == Some(*hashes), layers@ == layout_spec(self.count), location < self.count,
                ensures
                    playback(alg@, layers@, self.hashes.0@.len() as int, 0, hash0, location as int, bview(hashes.0@), 0) == Some((hash_l@, index as int)),
            {
                assert(it.index@ < layers@.len());
                assert(layer == layers@[it.index@]);

                let is_right = index % 2 == 1;

                if layer == self.hashes.len() {
                    break;
                }

                if is_right {
                    if index - 1 < layer {
                        // make sure proof structure is valid
                        if let Some(proof_hash) = hashes.get(proof_index) {
                            hash_l = concat_and_hash(alg, proof_hash, Some(&hash_l));
                            proof_index += 1;
                        } else {
                            assert(proof_index >= hashes.0@.len());
                            assert(playback(alg@, layers@, self.hashes.0@.len() as int, it.index@, hash_l@, index as int, bview(hashes.0@), proof_index as int) is None);
                            assert(hash0 == hash_param);
                            assert(proof_ is Some);
                            assert(proof_.unwrap().0@ == hashes.0@);
                            assert(layers@ == layout_spec(self.count));
                            assert(playback(alg@, layout_spec(self.count), self.hashes.0@.len() as int, 0, hash_param, location as int, bview(proof_.unwrap().0@), 0) is None);
                            return false;
                        }
                    }
                } else if index + 1 < layer {
                    // make sure proof structure is valid
                    if let Some(proof_hash) = hashes.get(proof_index) {
                        hash_l = concat_and_hash(alg, &hash_l, Some(proof_hash));
                        proof_index += 1;
                    } else {
                        return false;
                    }
                }

                index /= 2;
            }
        } else {
            //empty proof playback
            for layer in it: layers
                invariant_except_break
                    climb(layers@, self.hashes.0@.len() as int, it.index@, index as int) == climb(layers@, self.hashes.0@.len() as int, 0, location as int),
                    hash_l@ == hash0, hash0 == hash@, *proof_ == None::<VecByteBuf>, layers@ == layout_spec(self.count), location < self.count,
                ensures
                    climb(layers@, self.hashes.0@.len() as int, 0, location as int) == index as int, hash_l@ == hash0,
            {
                if layer == self.hashes.len() {
                    break;
                }
                index /= 2;
            }
        }

        self.hash_check(index, &hash_l)
    }
}

} // verus!
fn main() {}
