use vstd::prelude::*;
verus! {

pub open spec fn half(n: int) -> int { (n + 1) / 2 }

pub open spec fn layout(n: int) -> Seq<int>
    decreases n
{
    if n <= 1 { seq![n] } else { seq![n].add(layout(half(n))) }
}

// ---- extracted: C2PAMerkleTree::to_layout (rule X2 applied once) ----
    pub fn to_layout(num_leaves: usize) -> (r: Vec<usize>)
        ensures r@.len() == layout(num_leaves as int).len(),
                forall|k: int| 0 <= k < r@.len() ==> r@[k] as int == layout(num_leaves as int)[k],
    {
        let mut layers = Vec::new();

        layers.push(num_leaves);
        let mut current_layer = layers[0];

        while current_layer > 1
            invariant
                layers@.len() >= 1,
                current_layer == layers@[layers@.len() - 1],
                layout(num_leaves as int) =~= layers@.map_values(|x: usize| x as int).subrange(0, layers@.len() - 1).add(layout(current_layer as int)),
            decreases current_layer
        {
            let parent_layer_index = layers.len();
            let mut parent_layer_cnt: usize = 0;

            let mut __n = 0; while __n < current_layer
                invariant __n <= current_layer, __n % 2 == 0 || __n == current_layer,
                    parent_layer_cnt as int == half(__n as int),
                    parent_layer_cnt <= __n,
                decreases current_layer - __n
            { let i = __n; __n = if current_layer - __n > 2 { __n + 2 } else { current_layer };
                if i + 1 == current_layer {
                    parent_layer_cnt += 1;
                    continue;
                }

                parent_layer_cnt += 1;
            }
            layers.push(parent_layer_cnt);
            current_layer = layers[parent_layer_index];
        }

        layers
    }

} // verus!
fn main() {}
