#[cfg(kani)]
mod verif_kani {
    use super::*;
    fn stub_format(_a: std::fmt::Arguments<'_>) -> String { String::new() }

    #[kani::proof]
    #[kani::stub(alloc::fmt::format, stub_format)]
    #[kani::unwind(7)]
    fn sanitize_contract() {
        const L: usize = 4;
        const ALPHA: [u8; 4] = [b'a', b'.', b'/', b'\\'];
        let mut b = [0u8; L];
        let n: usize = kani::any();
        kani::assume(n <= L);
        let mut i = 0;
        while i < L { let c: usize = kani::any(); kani::assume(c < 4); b[i] = ALPHA[c]; i += 1; }
        let s = std::str::from_utf8(&b[..n]).unwrap();
        let r = sanitize_archive_path(s);
        if let Ok(out) = &r {
            let o = out.as_bytes();
            assert!(!o.is_empty());
            assert!(o[0] != b'/');
            // no backslash, no empty / "." / ".." component
            let mut start = 0usize; let mut k = 0usize;
            while k <= o.len() {
                if k == o.len() || o[k] == b'/' {
                    let comp = &o[start..k];
                    assert!(!comp.is_empty());
                    assert!(!(comp.len() == 1 && comp[0] == b'.'));
                    assert!(!(comp.len() == 2 && comp[0] == b'.' && comp[1] == b'.'));
                    start = k + 1;
                } else { assert!(o[k] != b'\\'); }
                k += 1;
            }
        }
        kani::cover!(r.is_ok());
        kani::cover!(r.is_err());
        std::mem::forget(r);
    }
}
