#[cfg(kani)]
mod verif_kani {
    use super::*;
    use std::panic as sp;
    use std::sync::mpsc::{Sender, Receiver};
    fn stub_catch<F: FnOnce() -> R + std::panic::UnwindSafe, R>(f: F) -> std::thread::Result<R> { Ok(f()) }
    fn stub_channel<T>() -> (Sender<T>, Receiver<T>) { kani::assume(false); unreachable!() }
    fn stub_spawn<F, T>(_b: std::thread::Builder, _f: F) -> std::io::Result<std::thread::JoinHandle<T>>
      where F: FnOnce() -> T + Send + 'static, T: Send + 'static { kani::assume(false); unreachable!() }
    fn stub_send<T>(_s: &Sender<T>, _t: T) -> std::result::Result<(), std::sync::mpsc::SendError<T>> { kani::assume(false); unreachable!() }
    fn stub_recv<T>(_s: &Receiver<T>) -> std::result::Result<T, std::sync::mpsc::RecvError> { kani::assume(false); unreachable!() }

    // hashing abstracted: the "digest" of an inclusion list is its (start, len) — injective in the range
    fn stub_hash<R: Read + Seek + ?Sized, F: FnMut(u32, u32) -> Result<()>>(_alg: &str, _d: &mut R, hr: Option<Vec<HashRange>>, _ex: bool, _p: &mut F) -> Result<Vec<u8>> {
        let v = hr.unwrap();
        Ok(vec![v[0].start() as u8, v[0].length() as u8])
    }

    struct Map2 { starts: [u64; 2], lens: [u64; 2], n: usize }
    impl AssetBoxHash for Map2 {
        fn get_box_map(&self, _r: &mut dyn CAIRead) -> Result<Vec<BoxMap>> {
            let mut v = Vec::new();
            let mut i = 0;
            while i < self.n {
                v.push(BoxMap { names: vec![if i == 0 { "A".to_string() } else { "B".to_string() }], alg: None, hash: ByteBuf::from(Vec::new()), excluded: None, pad: ByteBuf::from(Vec::new()), range_start: self.starts[i], range_len: self.lens[i] });
                i += 1;
            }
            Ok(v)
        }
    }

    #[kani::proof]
    #[kani::stub(crate::utils::hash_utils::hash_stream_by_alg_with_progress, stub_hash)]
    #[kani::stub(sp::catch_unwind, stub_catch)]
    #[kani::stub(std::sync::mpsc::channel, stub_channel)]
    #[kani::stub(std::thread::Builder::spawn, stub_spawn)]
    #[kani::stub(std::sync::mpsc::Sender::send, stub_send)]
    #[kani::stub(std::sync::mpsc::Receiver::recv, stub_recv)]
    #[kani::unwind(4)]
    fn leftover_source_boxes_rejected() {
        // the asset has two boxes A, B; the signed assertion lists only A (with the right digest)
        let src = Map2 { starts: [0, 4], lens: [4, 4], n: 2 };
        let signed = BoxHash { boxes: vec![BoxMap { names: vec!["A".to_string()], alg: Some("sha256".to_string()), hash: ByteBuf::from(vec![0u8, 4u8]), excluded: None, pad: ByteBuf::from(Vec::new()), range_start: 0, range_len: 0 }] };
        let data = [0u8; 8];
        let mut cur = std::io::Cursor::new(&data[..]);
        let r = signed.verify_stream_hash_with_progress(&mut cur, None, &src, &mut |_, _| Ok(()));
        // property: box B is not covered by the signed assertion, so this must not verify
        assert!(r.is_err());
        std::mem::forget(r);
    }
}
