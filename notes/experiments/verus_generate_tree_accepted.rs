use vstd::prelude::*;
verus! {

#[derive(Default, Clone, PartialEq, Debug)]
pub struct MerkleNode(pub Vec<u8>);

pub assume_specification<T: Clone> [<[T]>::to_vec] (s: &[T]) -> (r: Vec<T>)
    ensures r@.len() == s@.len();

pub uninterp spec fn H(alg: Seq<char>, l: Seq<u8>, r: Seq<u8>) -> Seq<u8>;

#[verifier::external_body]
pub fn concat_and_hash(alg: &str, left: &[u8], right: Option<&[u8]>) -> (r: Vec<u8>)
    ensures right is Some ==> r@ == H(alg@, left@, right.unwrap()@)
{ unimplemented!() }

    fn generate_tree(alg: &str, leaves: &[MerkleNode]) -> Vec<Vec<MerkleNode>> {
        let mut layers = Vec::new();
        layers.push(leaves.to_vec()); // set layer 0
        let mut current_layer = &layers[0];

        while current_layer.len() > 1 {
            let parent_layer_index = layers.len();
            let mut parent_layer = Vec::new();

            let mut __next = 0; while __next < current_layer.len() { let i = __next; __next = if current_layer.len() - __next > 2 { __next + 2 } else { current_layer.len() };
                if i + 1 == current_layer.len() {
                    // just pass the current hash since last node is unbalanced
                    parent_layer.push(MerkleNode(current_layer[i].0.clone()));
                    continue;
                }
                let left = &current_layer[i];
                let right = if i + 1 == current_layer.len() {
                    left
                } else {
                    &current_layer[i + 1]
                };

                parent_layer.push(MerkleNode(concat_and_hash(alg, &left.0, Some(&right.0))));
            }
            layers.push(parent_layer);
            current_layer = &layers[parent_layer_index];
        }
        layers
    }

} // verus!
fn main() {}
