#[cfg(kani)]
mod verif_kani {
    use super::*;

    // CBOR byte-string length model for the tagged COSE_Sign1 with an empty signature:
    // base + per-pad-entry (1 + label_len + hdr(n) + n); map header grows by nothing below 24 entries.
    fn hdr(n: usize) -> usize { if n < 24 { 1 } else if n < 256 { 2 } else if n < 65536 { 3 } else if n < 4294967296 { 5 } else { 9 } }
    fn model_size(s: &CoseSign1) -> usize {
        let mut sz = 20usize; // arbitrary fixed base for tag + protected + payload + signature
        for (l, v) in &s.unprotected.rest {
            if let (Label::Text(t), Value::Bytes(b)) = (l, v) { sz += 1 + t.len() + hdr(b.len()) + b.len(); }
        }
        sz
    }
    // generic because the stubbed item is a provided trait method; the only instantiation in this harness is CoseSign1
    fn stub_to_tagged_vec<T: coset::TaggedCborSerializable>(s: T) -> coset::Result<Vec<u8>> {
        let r: &CoseSign1 = unsafe { &*(&s as *const T as *const CoseSign1) };
        let n = model_size(r);
        Ok(vec![0u8; n])
    }

    #[kani::proof]
    #[kani::stub(coset::TaggedCborSerializable::to_tagged_vec, stub_to_tagged_vec)]
    #[kani::unwind(6)]
    fn pad_exact() {
        let mut s = CoseSign1::default();
        let end: usize = kani::any();
        kani::assume(end <= 70100);
        let r = pad_cose_sig(&mut s, Some(end));
        if let Ok(v) = &r { assert!(v.len() == end); }
        if end >= 20 + PAD_OFFSET { assert!(r.is_ok()); }
        std::mem::forget(r);
    }
}
