import re, sys
sys.argv=['x']
exec(open('scan.py').read().split("targets=[")[0])
src=open('/repo/sdk/src/utils/merkle.rs').read(); code=strip_map(src)
s,o,c=find_fn(src,code,'to_layout')
sig=src[s:o]; body=src[o:c+1]; bcode=code[o:c+1]
# X2 on body (textual, single line pattern)
x2=re.compile(r'for\s+(\w+)\s+in\s+\((.+?)\.\.(.+?)\)\.step_by\((.+?)\)\s*\{')
fired=0
def x2sub(m):
    global fired; fired+=1
    P,A,B,K=m.group(1),m.group(2),m.group(3),m.group(4)
    return f"let mut __n = {A}; while __n < {B} /*@LOOPHEAD*/ {{ let {P} = __n; __n = if {B} - __n > {K} {{ __n + {K} }} else {{ {B} }};"
body2=x2.sub(x2sub, body)
# loops by ordinal: find `while`/`loop`/`for` heads in code order and insert clauses before their `{`
inv={0:"""
            invariant
                layers@.len() >= 1,
                current_layer == layers@[layers@.len() - 1],
                layout(num_leaves as int) =~= layers@.map_values(|x: usize| x as int).subrange(0, layers@.len() - 1).add(layout(current_layer as int)),
            decreases current_layer
        """,1:"""
                invariant __n <= current_layer, __n % 2 == 0 || __n == current_layer,
                    parent_layer_cnt as int == half(__n as int),
                    parent_layer_cnt <= __n,
                decreases current_layer - __n
            """}
c2=strip_map(body2)
heads=[m for m in re.finditer(r'\b(while|loop|for)\b', c2)]
out=body2; shift=0
for k,m in enumerate(heads):
    brace=c2.index('{', m.end())
    # for X2-rewritten loop the marker comment was blanked in c2; brace position is still right
    ins=inv[k]
    out=out[:brace+shift]+ins+out[brace+shift:]; shift+=len(ins)
out=out.replace("/*@LOOPHEAD*/","")
# ghost line before final expression `layers` (anchor: last statement text)
out=re.sub(r"\n(\s*)layers\n(\s*)\}$", r"\n\1proof { lemma_layout_len(num_leaves as int); }\n\1layers\n\2}", out)
ens="""
        ensures is_layout(r@, num_leaves as int), r@.len() <= usize::MAX,
    """
sig2=sig.replace("-> Vec<usize>","-> (r: Vec<usize>)")
unit=open('/tmp/vx/u/merkle_unit2.rs').read()
# take specs + lemma_layout_len from the prototype, replace its to_layout with the generated one
spec=unit[unit.index("pub open spec fn half"):unit.index("// ============================ EXTRACTED (utils/merkle.rs)")]
lem=unit[unit.index("pub proof fn lemma_layout_len"):unit.index("pub proof fn lemma_layout_unique")]
gen="use vstd::prelude::*;\nverus! {\npub struct MerkleNode(pub Vec<u8>);\npub struct ByteBuf(pub Vec<u8>);\npub uninterp spec fn H(alg: Seq<char>, data: Seq<u8>) -> Seq<u8>;\n"+spec+"\npub struct C2PAMerkleTree {}\nimpl C2PAMerkleTree {\n    "+sig2.rstrip()+ens+out+"\n}\n"+lem+"\n}\nfn main() {}\n"
open('gen_to_layout.rs','w').write(gen)
print("X2 fired",fired,"loops",len(heads))
