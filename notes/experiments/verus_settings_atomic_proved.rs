use vstd::prelude::*;
verus! {
#[derive(Debug)]
pub enum Error { BadParam(String), Other }
pub type Result<T> = core::result::Result<T, Error>;
#[verifier::external_body] pub struct Value { _p: u8 }

pub struct Settings { pub version: usize, pub rest: u64 }

impl Settings {
    #[verifier::external_body] fn with_string(&self, settings_str: &str, format: &str) -> Result<Self> { unimplemented!() }
    #[verifier::external_body] pub fn with_value<T: Into<Value>>(&self, path: &str, value: T) -> Result<Self> { unimplemented!() }

    pub fn update_from_str(&mut self, settings_str: &str, format: &str) -> (res: Result<()>)
        ensures res is Err ==> *final(self) == *old(self)
    {
        *self = self.with_string(settings_str, format)?;
        Ok(())
    }

    pub fn set_value<T: Into<Value>>(&mut self, path: &str, value: T) -> (res: Result<()>)
        ensures res is Err ==> *final(self) == *old(self)
    {
        *self = self.with_value(path, value)?;
        Ok(())
    }
}
}
fn main() {}
