#[cfg(kani)]
mod verif_kani {
    use super::*;
    use crate::crypto::cose::CertificateTrustPolicy;
    use std::panic as sp;
    fn stub_catch<F: FnOnce() -> R + std::panic::UnwindSafe, R>(f: F) -> std::thread::Result<R> { Ok(f()) }

    struct DummySigner;
    impl Signer for DummySigner {
        fn sign(&self, _data: &[u8]) -> Result<Vec<u8>> { Ok(Vec::new()) }
        fn alg(&self) -> crate::SigningAlg { crate::SigningAlg::Es256 }
        fn certs(&self) -> Result<Vec<Vec<u8>>> { Ok(Vec::new()) }
        fn reserve_size(&self) -> usize { 1024 }
    }
    static DUMMY: DummySigner = DummySigner;

    fn stub_ctp_default() -> CertificateTrustPolicy { CertificateTrustPolicy::passthrough() }
    fn stub_store_new() -> Store { kani::assume(false); unreachable!() }
    fn stub_to_store(_b: &Builder) -> Result<Store> { Ok(Store::new()) }
    fn stub_signer(_c: &Context) -> Result<&dyn Signer> { Ok(&DUMMY) }
    fn stub_sign_manifest(_s: &mut Store, _signer: &dyn Signer, _c: &Context) -> Result<Vec<u8>> {
        let n: usize = kani::any();
        kani::assume(n <= 4096);
        Ok(vec![0u8; n])
    }
    fn stub_compose(manifest_bytes: &[u8], _format: &str) -> Result<Vec<u8>> { Ok(manifest_bytes.to_vec()) }

    #[kani::proof]
    #[kani::stub(Builder::to_store, stub_to_store)]
    #[kani::stub(Context::signer, stub_signer)]
    #[kani::stub(Store::sign_manifest, stub_sign_manifest)]
    #[kani::stub(Store::get_composed_manifest, stub_compose)]
    #[kani::stub(sp::catch_unwind, stub_catch)]
    #[kani::unwind(3)]
    fn embeddable_size_contract() {
        let mut b = Builder::default();
        let n: usize = kani::any();
        kani::assume(n <= 4096);
        b.placeholder_jumbf_len = Some(n);
        let r = b.sign_embeddable("application/c2pa");
        if let Ok(v) = r {
            assert!(v.len() == n);
        }
    }
}
