use vstd::prelude::*;
use std::collections::HashSet;
verus! {

#[verifier::external_body] pub struct Claim { _p: u8 }
#[verifier::external_body] pub struct ClaimAssertion { _p: u8 }
#[verifier::external_body] pub struct Assertion { _p: u8 }
#[verifier::external_body] pub struct HashedUri { _p: u8 }
#[verifier::external_body] pub struct Store { _p: u8 }
#[derive(PartialEq, Eq)]
pub enum Relationship { ParentOf, ComponentOf, InputTo }
pub struct Ingredient { pub relationship: Relationship, pub c2pa: Option<HashedUri> }

pub uninterp spec fn claim_label(c: &Claim) -> String;
pub uninterp spec fn store_labels(s: &Store) -> Set<String>;

#[verifier::external_body]
pub broadcast proof fn axiom_string_view_injective(a: String, b: String)
    requires #[trigger] a@ == #[trigger] b@
    ensures a == b
{}

pub proof fn lemma_measure_decreases(l: Set<String>, v: Set<String>, lc: String, lp: String)
    requires l.finite(), !v.contains(lc), l.contains(lp),
    ensures l.insert(lp).difference(v.insert(lc)).len() < l.insert(lc).difference(v).len(),
{
    let a = l.insert(lp).difference(v.insert(lc));
    let b = l.insert(lc).difference(v);
    assert(l.insert(lp) =~= l);
    assert(a.subset_of(b));
    assert(b.contains(lc) && !a.contains(lc));
    assert(l.insert(lc).finite());
    assert(b.finite()) by { vstd::set_lib::lemma_len_difference(l.insert(lc), v); }

    assert(a.subset_of(b.remove(lc)));
    vstd::set_lib::lemma_len_subset(a, b.remove(lc));
}

impl Claim {
    #[verifier::external_body] pub fn label(&self) -> (r: &str) ensures r@ == claim_label(self)@ { unimplemented!() }
    #[verifier::external_body] pub fn update_manifest(&self) -> bool { unimplemented!() }
    #[verifier::external_body] pub fn hash_assertions(&self) -> Vec<&ClaimAssertion> { unimplemented!() }
    #[verifier::external_body] pub fn ingredient_assertions(&self) -> Vec<&ClaimAssertion> { unimplemented!() }
}
impl ClaimAssertion { #[verifier::external_body] pub fn assertion(&self) -> &Assertion { unimplemented!() } }
impl HashedUri { #[verifier::external_body] pub fn url(&self) -> String { unimplemented!() } }
impl Ingredient {
    #[verifier::external_body] pub fn from_assertion(a: &Assertion) -> Result<Ingredient, ()> { unimplemented!() }
    pub fn c2pa_manifest(&self) -> Option<&HashedUri> { self.c2pa.as_ref() }
}
#[verifier::external_body] pub fn manifest_label_from_uri(uri: &str) -> Option<String> { unimplemented!() }

impl Store {
    #[verifier::external_body]
    pub fn get_claim(&self, label: &str) -> (r: Option<&Claim>)
        ensures r is Some ==> store_labels(self).contains(claim_label(r.unwrap())), store_labels(self).finite()
    { unimplemented!() }

    fn get_hash_binding_manifest_impl(
        &self,
        claim: &Claim,
        visited: &mut HashSet<String>,
    ) -> Option<String>
        requires store_labels(self).finite(), vstd::std_specs::hash::obeys_key_model::<String>(), vstd::std_specs::hash::builds_valid_hashers::<std::hash::RandomState>(),
        decreases store_labels(self).insert(claim_label(claim)).difference(old(visited)@).len()
    {
        broadcast use axiom_string_view_injective;
        broadcast use vstd::std_specs::hash::group_hash_axioms;
        if !visited.insert(claim.label().to_owned()) {
            // A cyclic chain has no binding manifest.
            // None maps to a validation error in this case.
            return None;
        }

        // is this claim valid
        if !claim.update_manifest() && !claim.hash_assertions().is_empty() {
            return Some(claim.label().to_owned());
        }

        // walk the update manifests until you find an acceptable claim
        for i in it: claim.ingredient_assertions()
            invariant
                visited@ == old(visited)@.insert(claim_label(claim)),
                !old(visited)@.contains(claim_label(claim)),
                store_labels(self).finite(), vstd::std_specs::hash::obeys_key_model::<String>(), vstd::std_specs::hash::builds_valid_hashers::<std::hash::RandomState>(),
        {
            let ingredient = Ingredient::from_assertion(i.assertion()).ok()?;
            if ingredient.relationship == Relationship::ParentOf {
                if let Some(parent_uri) = ingredient.c2pa_manifest() {
                    let parent_label = manifest_label_from_uri(&parent_uri.url())?;
                    if let Some(parent) = self.get_claim(&parent_label) {
                        // recurse until we find
                        if parent.update_manifest() {
                            proof { lemma_measure_decreases(store_labels(self), old(visited)@, claim_label(claim), claim_label(parent)); }
                            return self.get_hash_binding_manifest_impl(parent, visited);
                        } else if !parent.hash_assertions().is_empty() {
                            return Some(parent.label().to_owned());
                        }
                    }
                }
            }
        }
        None
    }
}
}
fn main() {}
