#!/usr/bin/env python3
"""usage: compare_baseline.py <nextest log>  -- lists tests that are in the baseline's stable_pass set but failed in this run"""
import json, re, sys
sp = set(json.load(open('/root/.vp/BASELINE.json'))['stable_pass'])
failed = set(); ran = 0
for l in open(sys.argv[1], errors='replace'):
    m = re.match(r'\s+(FAIL|SIGABRT|SIGSEGV|TIMEOUT)\s+\[.*?\]\s+\(.*?\)\s+(\S+)\s+(\S+)', l)
    if m: failed.add(m.group(2) + '::' + m.group(3))
    m = re.search(r'Summary \[.*?\]\s+(\d+) tests run: (\d+) passed', l)
    if m: ran = int(m.group(1)); print('summary:', l.strip())
bad = sorted(n for n in failed if n in sp)
print('tests failed in this run: %d; of those in the baseline stable_pass set: %d' % (len(failed), len(bad)))
for n in bad: print('  REGRESSION', n)
sys.exit(1 if bad or ran == 0 else 0)
