"""Engine B: bounded stand-in.  The contract text of a unit is evaluated natively on the REAL code for every input of a
stated finite domain.  The enumerators are `#[test]` functions inside the unit's #[cfg(kani)] module and are run with
`cargo kani playback` (which builds the crate's tests with --cfg kani).  Never counted as proved.

Protocol (stdout of the test, one item per line):
  VERIF-B unit=<u> test=<t> evaluations=<n> nontrivial=<m> exhaustive=<true|false> domain=<free text>
  VERIF-B-SAMPLE <free text>
  VERIF-B-VIOLATION key=<class key without spaces> input=<free text>
A test that panics or prints no VERIF-B line is UNDECIDED (never an alarm).
"""
import os
import re
import time

import kani_engine

VERIF = kani_engine.VERIF
PLAYBACK_TARGET = os.path.join(VERIF, '.cache', 'playback')


def playback_cmd(crate, tests):
    c = kani_engine.CRATES[crate]
    cmd = ['cargo', 'kani', 'playback', '-Z', 'concrete-playback', '--lib'] + c['args'] + ['--'] + tests + ['--nocapture', '--test-threads', '8']
    return cmd, os.path.join(kani_engine.REPO, c['dir'])


def run_part(part, tier, workdir, seed):
    t0 = time.time()
    tests = [t for t in part['tests'] if tier == 'thorough' or t.get('tier', 'quick') == 'quick']
    names = [t['name'] for t in tests]
    res = {'engine': 'native', 'backend': 'native execution of the real code (rustc test build with --cfg kani)', 'status': 'undecided',
           'obligations': 0, 'discharged': 0, 'failures': [], 'undecided': [], 'samples': [], 'evaluations': 0,
           'distinct_nontrivial': 0, 'assumptions': [], 'items': part.get('items', []), 'exhaustive': True, 'bounds': part.get('bounds')}
    res['items'] = kani_engine.function_items(part.get('functions', []))
    cmd, cwd = playback_cmd(part['crate'], names)
    target = PLAYBACK_TARGET + kani_engine.CRATES[part['crate']].get('target_suffix', '')
    os.environ['CARGO_TARGET_DIR'] = target
    if tier == 'thorough':
        os.environ['VERIF_B_TIER'] = 'thorough'
    else:
        os.environ['VERIF_B_TIER'] = 'quick'
    res['checker_cmd'] = 'cd %s && CARGO_TARGET_DIR=%s C2PA_VERIF_DIR=%s VERIF_B_TIER=%s %s' % (cwd, target, VERIF, os.environ['VERIF_B_TIER'], ' '.join(cmd))
    os.makedirs(workdir, exist_ok=True)
    log = os.path.join(workdir, 'native-%s.log' % part['name'].replace(':', '_'))
    timeout = int(part.get('timeout', 2400) * float(os.environ.get('VERIF_TIMEOUT_FACTOR', '3')))
    rc, out = kani_engine.run_cmd(cmd, cwd, timeout, log)
    res['wall_s'] = time.time() - t0
    res['tool_output'] = out[-3000:]
    if rc is None:
        res['undecided'].append('native run timed out after %ds (log %s)' % (timeout, log))
        return res
    seen_tests = set()
    for m in re.finditer(r'^VERIF-B unit=(\S+) test=(\S+) evaluations=(\d+) nontrivial=(\d+) exhaustive=(\w+) domain=(.*)$', out, re.M):
        seen_tests.add(m.group(2))
        res['evaluations'] += int(m.group(3))
        res['distinct_nontrivial'] += int(m.group(4))
        if m.group(5) != 'true':
            res['exhaustive'] = False
        res['samples'].append('%s: %s evaluations over %s' % (m.group(2), m.group(3), m.group(6)[:300]))
    for m in re.finditer(r'^VERIF-B-SAMPLE (.*)$', out, re.M):
        if len(res['samples']) < 14:
            res['samples'].append(m.group(1)[:300])
    viol = {}
    for m in re.finditer(r'^VERIF-B-VIOLATION key=(\S+) input=(.*)$', out, re.M):
        viol.setdefault(m.group(1), []).append(m.group(2))
    for key, inputs in viol.items():
        res['failures'].append({'obligation': 'native::%s' % key, 'message': '%d violating inputs in the enumerated domain' % len(inputs),
                                'input': inputs[0][:1000], 'function': key,
                                'replay': res['checker_cmd']})
    for t in names:
        short = t.split('::')[-1]
        if short not in seen_tests:
            m = re.search(r'(error(\[E\d+\])?:.*?)(\n\n|\Z)', out, re.S)
            pm = re.search(r"panicked at (.*?)\n(.*?)\n", out)
            res['undecided'].append('test %s gave no VERIF-B summary (rc=%s) %s' % (short, rc, (pm.group(0)[:300] if pm else (m.group(1)[:500] if m else out[-400:]))))
    if rc != 0 and not res['undecided']:
        res['undecided'].append('native test run exited with %s (log %s)' % (rc, log))
    if res['undecided']:
        res['status'] = 'undecided'
    elif res['failures']:
        res['status'] = 'fail'
    else:
        res['status'] = 'ok'
    return res
