"""Engine V: generate the unit file from /repo, run Verus, classify the outcome."""
import json
import os
import re
import subprocess
import time

import extract

VERIF = os.path.dirname(os.path.dirname(os.path.abspath(__file__)))
REPO = os.environ.get('C2PA_REPO', '/repo')

FAIL_PATTERNS = [
    (r'postcondition not satisfied', 'ensures'),
    (r'precondition not satisfied', 'requires-at-call'),
    (r'invariant not satisfied at end of loop body', 'invariant-preserved'),
    (r'invariant not satisfied before loop', 'invariant-established'),
    (r'invariant not satisfied', 'invariant'),
    (r'loop ensures not satisfied|ensures not satisfied', 'loop-ensures'),
    (r'assertion failed', 'assert'),
    (r'possible arithmetic underflow/overflow', 'arith'),
    (r'possible division by zero', 'div0'),
    (r'possible bit shift', 'shift'),
    (r'decreases not satisfied|could not prove termination', 'decreases'),
    (r'index out of bounds|cannot show that this value is variant|unable to prove|possible .*out of bounds', 'safety'),
    (r'assertion failure|failed', 'other-verification-failure'),
]
UNDECIDED_PATTERNS = [r'Resource limit \(rlimit\) exceeded', r'timed out', r'not supported', r'unsupported']


def _classify(msg):
    for pat in UNDECIDED_PATTERNS:
        if re.search(pat, msg):
            return None, 'undecided'
    for pat, kind in FAIL_PATTERNS[:-1]:
        if re.search(pat, msg):
            return kind, 'fail'
    return None, 'other'


def run_unit(unit, workdir, probe=False, timeout=600, rlimit=None):
    """-> dict(status: ok|fail|undecided, obligations, discharged, failures[], undecided[], items[], assumptions[],
               checker_cmd, solver_time_s, wall_s, gen_path, per_function[])"""
    res = {'unit': unit, 'engine': 'verus', 'status': 'undecided', 'obligations': 0, 'discharged': 0,
           'failures': [], 'undecided': [], 'items': [], 'assumptions': [], 'per_function': [],
           'solver_time_s': 0.0, 'wall_s': 0.0, 'checker_cmd': '', 'verus_output': ''}
    t0 = time.time()
    tmpl = os.path.join(VERIF, 'verus', unit + '.rs.tmpl')
    os.makedirs(workdir, exist_ok=True)
    gen = os.path.join(workdir, unit + ('_probe' if probe else '') + '_gen.rs')
    try:
        text, linemap, items = extract.generate(REPO, tmpl, probe=probe)
    except extract.ExtractError as e:
        res['undecided'].append('extraction: %s' % e)
        res['wall_s'] = time.time() - t0
        return res
    except Exception as e:  # scanner bug or unreadable file: never an alarm
        res['undecided'].append('extraction crashed: %r' % e)
        res['wall_s'] = time.time() - t0
        return res
    open(gen, 'w').write(text)
    res['gen_path'] = gen
    res['items'] = items
    res['assumptions'] = extract.scan_assumptions(text)
    res['linemap'] = linemap
    cmd = ['verus', gen, '--error-format=json', '--output-json', '--time-expanded', '--triggers-mode', 'silent',
           '--multiple-errors', '4', '--num-threads', '8']
    if rlimit:
        cmd += ['--rlimit', str(rlimit)]
    res['checker_cmd'] = ' '.join(cmd)
    try:
        p = subprocess.run(cmd, cwd=workdir, capture_output=True, text=True, timeout=timeout)
    except subprocess.TimeoutExpired:
        res['undecided'].append('verus timed out after %ds' % timeout)
        res['wall_s'] = time.time() - t0
        return res
    res['wall_s'] = time.time() - t0
    try:
        out = json.loads(p.stdout)
    except Exception:
        res['undecided'].append('verus produced no JSON result (rc=%d): %s' % (p.returncode, p.stderr[-2000:]))
        return res
    vr = out.get('verification-results', {})
    res['obligations'] = vr.get('verified', 0) + vr.get('errors', 0)
    res['discharged'] = vr.get('verified', 0)
    try:
        smt = out['times-ms']['smt']
        res['solver_time_s'] = (smt.get('smt-run', 0) + smt.get('smt-init', 0)) / 1000.0
        for mod in smt.get('smt-run-module-times', []):
            for fb in mod.get('function-breakdown', []):
                res['per_function'].append({'function': fb.get('function'), 'mode': fb.get('mode:'),
                                            'time_ms': fb.get('time'), 'rlimit': fb.get('rlimit'),
                                            'success': fb.get('success')})
    except Exception:
        pass
    # diagnostics
    diag_text = []
    for l in p.stderr.split('\n'):
        l = l.strip()
        if not l.startswith('{'):
            continue
        try:
            d = json.loads(l)
        except Exception:
            continue
        if d.get('level') != 'error':
            continue
        msg = d.get('message', '')
        if msg.startswith('aborting due to'):
            continue
        diag_text.append(d.get('rendered') or msg)
        kind, cls = _classify(msg)
        spans = d.get('spans', [])
        prim = [s for s in spans if s.get('is_primary')] or spans
        sec = [s for s in spans if not s.get('is_primary')]
        gl = prim[0]['line_start'] if prim else 0
        org = linemap[gl - 1] if 0 < gl <= len(linemap) else {}
        # the clause that failed (secondary span for ensures / requires) or the primary text
        lab = [s for s in spans if s.get('label') and re.search(r'failed|not satisfied', s['label'])]
        clause_span = (lab[0] if lab else (prim[0] if prim else None))
        clause = ''
        if clause_span and clause_span.get('text'):
            clause = clause_span['text'][0].get('text', '').strip()
        corg = linemap[clause_span['line_start'] - 1] if clause_span and 0 < clause_span['line_start'] <= len(linemap) else {}
        fn = org.get('fn') or corg.get('fn') or '?'
        entry = {'function': fn, 'message': msg, 'gen_line': gl, 'clause': clause[:160],
                 'src': ('%s:%s' % (org.get('file'), org.get('line')) if org.get('kind') == 'src' else None),
                 'in_probe': org.get('kind') == 'probe' or corg.get('kind') == 'probe'}
        if cls == 'fail':
            entry['obligation'] = '%s::%s::%s[%s]' % (unit, fn, kind, re.sub(r'\s+', ' ', clause)[:80])
            res['failures'].append(entry)
        elif cls == 'undecided':
            res['undecided'].append('%s in %s (generated line %d)' % (msg, fn, gl))
        else:
            res['undecided'].append('verus error that is not a verification result: %s (generated line %d, %s)' % (msg, gl, fn))
    res['verus_output'] = '\n'.join(diag_text)[-6000:]
    if res['undecided']:
        res['status'] = 'undecided'
    elif res['failures']:
        res['status'] = 'fail'
    elif vr.get('success') and res['obligations'] > 0 and res['discharged'] == res['obligations']:
        res['status'] = 'ok'
    else:
        res['status'] = 'undecided'
        res['undecided'].append('verus reported success=%s verified=%s errors=%s without diagnostics' %
                                (vr.get('success'), vr.get('verified'), vr.get('errors')))
    return res


def run_probe(unit, workdir, timeout=600):
    """vacuity guard: in the probe variant every `probe_*` function must FAIL and nothing else may fail"""
    r = run_unit(unit, workdir, probe=True, timeout=timeout)
    text = open(r['gen_path']).read() if r.get('gen_path') else ''
    probes = re.findall(r'\bfn\s+(probe_\w+)', text)
    failed = set(f['function'] for f in r['failures'])
    out = {'probes': probes, 'rejected': sorted(p for p in probes if p in failed),
           'accepted': sorted(p for p in probes if p not in failed),
           'collateral': sorted(f for f in failed if f not in probes), 'undecided': r['undecided']}
    out['ok'] = bool(probes) and not out['accepted'] and not out['collateral'] and not r['undecided']
    return out
