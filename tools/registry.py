"""Which parts decide which property.  part = dict(name, kind: proof|bounded|exhaustive, run: callable, ...)."""
import os
import verus_engine
import kani_engine
import native_engine

VERIF = os.path.dirname(os.path.dirname(os.path.abspath(__file__)))

TB_COMMON = ['rustc', 'extraction rules X1-X6 + contract splicing of tools/extract.py']
TB_VERUS = TB_COMMON + ['Verus 0.2026.09.13 + Z3 (vstd models of std)', '64-bit usize']


def run_verus(part, tier, workdir, seed):
    r = verus_engine.run_unit(part['unit'], workdir, timeout=int(part.get('timeout', 600) * float(os.environ.get('VERIF_TIMEOUT_FACTOR', '3'))))
    r['backend'] = 'z3 (via verus)'
    r['samples'] = ['%s [%s ms, rlimit %s, %s]' % (f['function'], f['time_ms'], f['rlimit'], 'ok' if f['success'] else 'FAILED')
                    for f in r.get('per_function', [])][:12]
    if r['status'] == 'ok' and part.get('probe', True):
        pr = verus_engine.run_probe(part['unit'], workdir)
        r['probe'] = {k: pr[k] for k in ('probes', 'rejected', 'accepted', 'collateral')}
        if not pr['ok']:
            r['undecided'].append('vacuity probe run not as expected: accepted=%s collateral=%s undecided=%s' %
                                  (pr['accepted'], pr['collateral'], pr['undecided'][:2]))
    r.pop('linemap', None)
    return r


def V(name, unit, **kw):
    d = {'name': name, 'kind': 'proof', 'run': run_verus, 'unit': unit}
    d.update(kw)
    return d


def K(name, crate, harnesses, kind='proof', **kw):
    """harnesses: list of dicts(name, kind complete|bounded, bounds, tier)"""
    d = {'name': name, 'kind': kind, 'run': kani_engine.run_part, 'crate': crate, 'harnesses': harnesses}
    d.update(kw)
    return d


def B(name, crate, tests, **kw):
    d = {'name': name, 'kind': 'exhaustive', 'run': native_engine.run_part, 'crate': crate, 'tests': tests}
    d.update(kw)
    return d


def H(name, kind='complete', bounds=None, tier='quick'):
    return {'name': name, 'kind': kind, 'bounds': bounds, 'tier': tier}


TB_KANI = ['rustc', 'Kani 0.68 / CBMC 6.11 / kissat and their models of std', 'the cfg(kani) include! hook']
TECH_K = 'Kani function contracts / harnesses compiled inside the real crate, discharged by CBMC'
TECH_B = 'bounded stand-in: contract evaluated exhaustively over a stated finite domain on the real code'

PROPS = {}
HOOK_COMMITS = ['7ba03210d']

PROPS['C16'] = {
    'level': 'proof',
    'level_text': 'Deductive proof (Verus/Z3) over the real bodies of to_layout, generate_tree, get_proof_by_index, check_merkle_tree, hash_check: '
                  'for every leaf count, index and stored row the generated proof verifies (completeness theorem), and with index and proof fixed '
                  'no other leaf value verifies (soundness lemma, H injective). Unbounded in tree size; this is the statement no finite test run gives.',
    'level_note': 'SHA-2 uninterpreted; hash_by_alg, vec_compare, to_vec, ByteBuf assumed by contract; extraction rules X2 (step_by) and X4 (alpha-renaming) applied; from_leaves and file-level BMFF callers outside the unit.',
    'technique': 'Verus contracts (requires/ensures/loop invariants/decreases) + inductive lemmas on mechanically extracted real functions',
    'parts': [V('verus:merkle', 'merkle'),
              B('native:merkle_replay', 'sdk', [{'name': 'c16_generated_proofs_verify_natively', 'tier': 'quick'}],
                functions=[('sdk/src/utils/merkle.rs', 'from_leaves'), ('sdk/src/assertions/bmff_hash.rs', 'check_merkle_tree')],
                bounds='leaf counts 1..=40 (thorough: 300) x every row x every index on the real code (replay driver / differential check of the assumed callee contracts; also decides the property on concrete trees when a changed body no longer fits the unit)')],
    'trusted_base': TB_VERUS + [
        'SHA-2 is an uninterpreted function H(alg, bytes); leaf soundness additionally assumes H injective',
        'hash_by_alg(alg, data, None) == H(alg, data) (external_body); concat_and_hash is verified on its real body',
        'vec_compare(a, b) == (a == b) (external_body here; decided by Kani under C01)',
        '<[T]>::to_vec / Clone preserve contents (u8, MerkleNode)',
        'serde_bytes::ByteBuf is a newtype over Vec<u8> with Deref',
    ],
    'rule': 'obligation = one Verus function-level query (body + contract + loop invariants + termination) over real text extracted from /repo on this run',
    'not_covered': [
        'C2PAMerkleTree::from_leaves (leaf hashing via iterator adapters) and BmffHash callers that assemble MerkleMap from files',
        '"no other index or altered proof verifies": false with duplicate leaves and needs cross-level collision resistance; not claimed',
    ],
}


TECH_V = 'Verus contracts (requires/ensures/loop invariants/decreases) on mechanically extracted real functions; callees opaque with stated contracts'

PROPS['C14'] = {
    'level': 'proof',
    'level_text': 'Deductive proof (Verus/Z3) on the real body of DataHash::pad_to_size: a successful call leaves the serialized assertion at exactly the '
                  'requested size, the hash is untouched, loop and recursion terminate, and from a fresh assertion (no pad2) EVERY ample reserve succeeds '
                  '(totality, hence the monotonicity of the statement) - for all sizes below 2^31, which no finite set of reserve sizes in a test gives. '
                  'The COSE half: Verus proof on the real (repaired) pad_cose_sig - a successful result has exactly the reserved size and every reserve equal to the unpadded size or at least 7 bytes above it succeeds - '
                  'under the CBOR size axiom for a padding entry; the same function is also run natively for every reserve up to +70000 (not counted as proved).',
    'level_note': 'CBOR size model (RFC 8949 byte-string header lengths) assumed for to_assertion(); base size uninterpreted; sizes < 2^31; Store::start_save_stream equal-size check not covered.',
    'technique': TECH_V,
    'parts': [V('verus:pad', 'pad'), V('verus:cose_pad', 'cose_pad'),
              B('native:pad_cose_sig', 'sdk', [{'name': 'c14_pad_cose_sig_every_reserve', 'tier': 'quick'}, {'name': 'c14_cbor_size_model_matches_serializer', 'tier': 'quick'}, {'name': 'c14_pad_to_size_around_header_boundaries', 'tier': 'quick'}],
                functions=[('sdk/src/crypto/cose/sign.rs', 'pad_cose_sig'), ('sdk/src/assertions/data_hash.rs', 'pad_to_size')],
                bounds='every reserve from the unpadded size to +70000 (empty unprotected header); to +1200 (thorough +70000) for a populated header')],
    'trusted_base': TB_VERUS + ['to_assertion() is Ok and |data| = base(hash) + hdr(|pad|) + |pad| + (pad2 ? 5 + hdr(|pad2|) + |pad2| : 0), hdr = CBOR byte-string header length',
                                'coset: pushing (Text(label), Bytes(n zeros)) onto unprotected.rest grows the tagged serialization by 1 + |label| + hdr(n) + n (fewer than 20 entries); checked natively for every reserve up to +70000',
                                'serde_bytes::ByteBuf::from(v) holds v'],
    'rule': 'obligation = one Verus function-level query over real text extracted from /repo on this run',
    'not_covered': ['Store::start_save_stream / finish_save_stream equal-size checks (whole Store)', 'reserves 1..=6 bytes above the unpadded COSE size (recorded finding)'],
}

PROPS['C15'] = {
    'level': 'proof',
    'level_text': 'Deductive proof (Verus/Z3) on the real body of Builder::sign_embeddable with every callee opaque and Store::sign_manifest returning a vector of '
                  'ARBITRARY length: whenever a placeholder was committed and the call returns Ok, the result has exactly the composed length of the placeholder; and on the real body of Builder::placeholder: the length recorded for sign_embeddable is exactly the raw length of the placeholder returned by this call (whatever was recorded before). '
                  'Quantifies over all signers/manifests/dynamic assertions, which tests cannot.',
    'level_note': 'get_composed_manifest length is a function of (raw length, format) (assumed); that the placeholder is large enough in the first place and that the patched asset reads back Valid are not covered.',
    'technique': TECH_V,
    'parts': [V('verus:embeddable', 'embeddable'),
              B('native:sign_embeddable_api', 'sdk', [{'name': 'c15_sign_embeddable_size_contract', 'tier': 'quick'}, {'name': 'c15_placeholder_reuse_sequences', 'tier': 'quick'}], functions=[('sdk/src/builder.rs', 'sign_embeddable'), ('sdk/src/builder.rs', 'placeholder')],
                bounds='2 (thorough 4) formats x 2 definitions x 1..=14 exclusion ranges x 3 base offsets through the public API (replay driver for the Verus obligation); 216 sequences of 2-3 placeholder/sign rounds on one builder')],
    'trusted_base': TB_VERUS + ['Store::get_composed_manifest(b, f) returns composed_len(|b|, f) bytes', 'Vec::resize (vstd spec)'],
    'rule': 'obligation = one Verus function-level query over real text extracted from /repo on this run',
    'not_covered': ['that the placeholder is large enough for the signed manifest (signing then fails, which the statement allows)', 'end-to-end: the patched asset reads back valid', 'sign_data_hashed_embeddable / sign_box_hashed_embeddable (Store-level)'],
}

PROPS['C25'] = {
    'level': 'proof',
    'level_text': 'Deductive proof (Verus/Z3), partial: the atomic-failure clause only. On the real bodies of update_from_str, set_value, with_string, with_value, '
                  'from_string and set_thread_local_value: a failing update leaves *self unchanged; a successful one yields settings that passed validate(); the '
                  'thread-local cell is written only (effect-guard precondition) with a value that decoded and validated. The merge / path / JSON-TOML clauses are covered by a bounded native stand-in only (not counted as proved).',
    'level_note': 'parse_to_value, merge_json, set_at_path, serde_json::{to_value,from_value}, validate opaque; map_err closures replaced by opaque mappers (declared subst rules); thread-local SETTINGS modelled as a cell with get_clone/set.',
    'technique': TECH_V + '; effect-guard precondition on the thread-local write',
    'parts': [V('verus:settings', 'settings'),
              B('native:merge_and_path_laws', 'sdk', [{'name': 'c25_merge_and_path_laws_small_json_trees', 'tier': 'quick'}, {'name': 'c25_settings_path_updates_do_not_depend_on_history', 'tier': 'quick'},
                                                      {'name': 'c25_failed_updates_leave_settings_unchanged', 'tier': 'quick'}],
                functions=[('sdk/src/settings/mod.rs', 'update_from_str'), ('sdk/src/settings/mod.rs', 'set_value'), ('sdk/src/settings/mod.rs', 'merge_json_depth'), ('sdk/src/settings/mod.rs', 'set_at_path'), ('sdk/src/settings/mod.rs', 'get_at_path'), ('sdk/src/settings/mod.rs', 'parse_to_value')],
                bounds='JSON trees of depth <= 2 over keys {a,b} and 6 leaves (3191 trees); 8 paths; 7 real settings paths with 2..4 values each; atomic failure: 3 starting instances x 12 failing documents x 5 failing path updates')],
    'trusted_base': TB_VERUS + ['with_string/with_value take &self (rustc-enforced immutability)', 'Value::clone preserves decodability'],
    'rule': 'obligation = one Verus function-level query over real text extracted from /repo on this run',
    'not_covered': ['merge / path / JSON == TOML clauses beyond the bounded native part (serde_json::Value recursion is outside Verus and intractable in CBMC)', 'the full settings schema with invalid types and unknown keys'],
}

PROPS['C19'] = {
    'level': 'proof',
    'level_text': 'Deductive proof (Verus/Z3), partial: on the real body of Store::get_hash_binding_manifest_impl the recursion terminates for EVERY store '
                  '(decreases = labels not yet visited; cyclic update chains included) and a returned label always names a non-update manifest with a hard binding. '
                  'The other two traversals of the statement are not covered.',
    'level_note': 'std HashSet<String> assumed to obey vstd key model; Claim/Store opaque; get_claim returns a claim whose label is in the (finite) store.',
    'technique': TECH_V + '; termination by a set-cardinality measure',
    'parts': [V('verus:binding_search', 'binding_search'),
              B('native:ingredient_graphs', 'sdk', [{'name': 'c19_referenced_manifest_walk_all_small_graphs', 'tier': 'quick'}, {'name': 'c19_ingredient_walk_linear_in_references', 'tier': 'quick'}],
                functions=[('sdk/src/store.rs', 'get_claim_referenced_manifests_impl'), ('sdk/src/store.rs', 'ingredient_checks')],
                bounds='every directed ingredient graph on 1..=3 manifests (+ dangling reference), every 7th (thorough: all) of the 65536 graphs on 4 manifests, one over-deep chain; validation walk: every signed ladder of 2..=5 (6) manifests with right / wrong reference hashes, checkpoints counted against the number of ingredient assertions in the store')],
    'trusted_base': TB_VERUS + ['vstd HashSet model for String keys', 'String determined by its characters', 'Store::get_claim(l) returns a claim stored in the store'],
    'rule': 'obligation = one Verus function-level query over real text extracted from /repo on this run',
    'not_covered': ['ingredient_checks and get_claim_referenced_manifests_impl (entry API, log_item!, &mut iteration: outside Verus) only by the bounded native parts',
                    '"never reports a cyclic, dangling or over-deep graph as Valid"', 'running time beyond the linear checkpoint bound on ladders of <= 6 manifests'],
}

PROPS['C28'] = {
    'level': 'proof',
    'level_text': 'Deductive proof (Verus/Z3), partial: the remote-manifest clause. The network fetch is given its permission as a precondition '
                  '(requires settings.verify.remote_manifest_fetch) and Verus proves the call site in the real Store::handle_remote_manifest satisfies it, for the '
                  'feature fetch_remote_manifests on and off; with fetching disabled the result is Err, and RemoteManifestUrl(url) for a valid remote URL. '
                  'OCSP clause: fetch_and_check_ocsp_response requires settings.verify.ocsp_fetch; proved for the real claim.rs check_ocsp_status (policy from settings) and the real '
                  'crypto/cose check_ocsp_status (dispatch on the policy, which must not be FetchAllowed unless the setting is on).',
    'level_note': 'rule X5 (sync expansion of #[async_generic]) and X6 (cfg resolution) applied; OCSP and time-stamp request gating and "no request anywhere else" (whole-program frame) not covered.',
    'technique': TECH_V + '; effect-guard precondition on the network callee',
    'parts': [V('verus:remote_gate', 'remote_gate'), V('verus:ocsp_gate', 'ocsp_gate'), V('verus:ocsp_labels', 'ocsp_labels'),
              B('native:ocsp_label_selection', 'sdk', [{'name': 'c28_ocsp_label_selection_all_settings', 'tier': 'quick'}], functions=[('sdk/src/store.rs', 'get_manifest_labels_for_ocsp')],
                bounds='stores with 1..=3 manifests x 3 x 3 settings values')],
    'trusted_base': TB_VERUS + ['Store::fetch_remote_manifest is the only network access reachable from handle_remote_manifest'],
    'rule': 'obligation = one Verus function-level query over real text extracted from /repo on this run',
    'not_covered': ['Store::get_ocsp_response_ders itself (fetches for every label it is given; the label selection get_manifest_labels_for_ocsp is proved: empty unless builder.certificate_status_fetch is set)', 'time-stamp authority requests', 'absence of requests in all other code paths (whole-program frame condition)', 'async flavour'],
}


PROPS['C27'] = {
    'level': 'proof',
    'level_text': 'Two discharged parts. (1) Kani function contracts on the real ipv4_is_non_global / ipv6_is_non_global, loop-free over all 2^32 and all 2^128 addresses, '
                  'equal to the list of ranges in the statement; ip_is_non_global proved against the two contracts only (stub_verified). (2) Verus on the real bodies of '
                  'RedirectResolver::{redirect_target, http_resolve}: a request reaches the inner resolver only if it is the original one or its target passed the '
                  'non-global check with redirects allowed; at most 11 requests; none after the first when redirects are off. Host-string kernels are a bounded stand-in.',
    'level_note': 'host_is_non_global(uri) == non_global(uri) and build_redirected_request(..).uri == target assumed in the Verus unit; url::Url::join canonicalisation assumed; credential-header stripping in build_redirected_request is covered by the native part only.',
    'technique': TECH_K + ' (address classification: complete); ' + TECH_V + ' (redirect loop, ghost call counter)',
    'parts': [
        K('kani:ip_classification', 'sdk', [H('c27_v4_contract'), H('c27_v6_contract'), H('c27_ip_dispatch_uses_contracts')], timeout=900,
          functions=[('sdk/src/http/restricted.rs', 'ipv4_is_non_global'), ('sdk/src/http/restricted.rs', 'ipv6_is_non_global'), ('sdk/src/http/restricted.rs', 'ip_is_non_global')]),
        V('verus:redirect', 'redirect'),
        B('native:host_strings', 'sdk', [{'name': 'c27_host_string_kernels', 'tier': 'quick'}, {'name': 'c27_build_redirected_request_drops_credentials', 'tier': 'quick'},
                                         {'name': 'c26_c27_redirect_chains_through_stacked_resolvers', 'tier': 'quick'}],
          functions=[('sdk/src/http/restricted.rs', 'host_is_non_global'), ('sdk/src/http/restricted.rs', 'normalize_host'), ('sdk/src/http/restricted.rs', 'looks_like_obfuscated_ip'),
                     ('sdk/src/http/restricted.rs', 'build_redirected_request')],
          bounds='looks_like_obfuscated_ip: all strings <= 5 (6) over 8 chars; normalize_host: all strings <= 5 over 6 chars; 80 boundary hosts; all subsets of 8 headers; redirect chains over 9 targets'),
    ],
    'trusted_base': TB_VERUS + TB_KANI[1:] + ['std::net::Ipv4Addr/Ipv6Addr predicates as compiled by Kani (real std code)',
                                                'http / url types are opaque shims in the Verus unit'],
    'rule': 'proof obligation = one Verus function query or one complete (loop-free, unconstrained-input) Kani harness',
    'not_covered': ['async flavour http_resolve_async (same loop text, not extracted)', 'DNS rebinding (name resolves to an internal address later)',
                    'resolve_redirect_target / url::Url::join canonicalisation'],
}

PROPS['C26'] = {
    'level': 'proof',
    'level_text': 'Complete Kani harness on the real RestrictedResolver::http_resolve with is_uri_allowed replaced by an arbitrary Boolean and a counting inner resolver: '
                  'the inner resolver is called exactly once iff (no allow-list or the URI is allowed), otherwise never, and the error is UriDisallowed. '
                  'Verus on the real bodies of Context::build_default_sync_resolver / build_default_async_resolver: the stack built from settings with an allow-list keeps that layer beneath the redirect follower, so every hop is checked. '
                  'Pattern matching (is_uri_allowed / HostPattern) is a bounded-exhaustive stand-in, not counted as proved.',
    'level_note': 'is_uri_allowed stubbed in the enforcement proof; http::Uri is intractable in CBMC so matching is checked natively over a small alphabet. Resolver stacking: Verus on the real bodies of Context::build_default_sync_resolver / build_default_async_resolver and the three constructors they call, over a ghost shape of the stack: with an allow-list configured the allow-list layer has no redirect follower beneath it, so every hop reaching the client has passed it (Arc::new + unsized coercion replaced by an opaque shape-preserving function: declared subst).',
    'technique': TECH_K + ' (enforcement: complete); ' + TECH_V + ' (stack shape built from settings); ' + TECH_B + ' (host pattern matching)',
    'parts': [
        V('verus:resolver_stack', 'resolver_stack'),
        K('kani:allow_list_enforced', 'sdk', [H('c26_allow_list_enforced')], timeout=900,
          functions=[('sdk/src/http/restricted.rs', 'http_resolve', r'impl<T: SyncHttpResolver> SyncHttpResolver for RestrictedResolver<T> \{')],
          stubs=['is_uri_allowed -> arbitrary Boolean', 'sanitize_for_log -> empty string']),
        B('native:host_patterns', 'sdk', [{'name': 'c26_host_pattern_matching_small_domain', 'tier': 'quick'}, {'name': 'c26_c27_redirect_chains_through_stacked_resolvers', 'tier': 'quick'},
                                          {'name': 'c26_default_resolver_enforces_the_configured_allow_list', 'tier': 'quick'}],
          functions=[('sdk/src/context.rs', 'build_default_sync_resolver'), ('sdk/src/http/restricted.rs', 'matches'), ('sdk/src/http/restricted.rs', 'is_uri_allowed', None)],
          bounds='patterns: all strings <= 3 (thorough 4) over {a b . * A} x 3 ports x 4 scheme prefixes; URIs: hosts <= 4 over {a b . A} x 2 schemes x 3 ports; redirect chains of the stacked resolvers over 9 targets'),
    ],
    'trusted_base': TB_KANI,
    'rule': 'proof obligation = one complete Kani harness (all CBMC checks incl. safety checks SUCCESS, covers SATISFIED)',
    'not_covered': ['custom resolvers supplied by the caller', 'the async RestrictedResolver / RedirectResolver impls (same text as the sync ones)'],
}


PROPS['C11'] = {
    'level': 'proof',
    'level_text': 'Complete Kani harness on the real container_from_stream + format_from_stream: for every 20-byte prefix, every length 0..=20 and every container class '
                  'the hint may map to (or none), the format used for reading maps to the container detected from the bytes; the hint survives only when it names the same '
                  'container family or nothing is detectable; the stream is rewound. All inputs of the sniffing kernel, which a test corpus cannot enumerate.',
    'level_note': 'container_from_format (lazy-static HashMap of handlers) replaced by an arbitrary-but-fixed function of the hint; that handlers of one container id behave alike for different format strings, and the pdf feature branch, are not covered.',
    'technique': TECH_K + ' (loop bounds constant, inputs unconstrained: complete)',
    'parts': [K('kani:hint_independent', 'sdk', [H('c11_hint_independent')], timeout=1200,
                functions=[('sdk/src/jumbf_io.rs', 'container_from_stream'), ('sdk/src/jumbf_io.rs', 'format_from_stream')],
                stubs=['container_from_format -> arbitrary-but-fixed function of the hint'])],
    'trusted_base': TB_KANI,
    'rule': 'proof obligation = CBMC check of a complete harness (assertions + Kani safety checks + unwinding assertions); covers must be SATISFIED',
    'not_covered': ['Reader/Store paths after the format is chosen', 'ID3-prefixed audio beyond the first 20 bytes', 'feature pdf'],
}

PROPS['C35'] = {
    'level': 'model_checking',
    'level_text': 'Narrow and bounded: Kani harness on the real container_from_stream with a stream whose first 2 (quick) / 3 (thorough) reads return an arbitrary '
                  'number >= 1 of the bytes asked for: for every 16-byte prefix and length the sniffing result equals that of a full-read cursor. '
                  'Bounded in the number of short reads only; the prefix bytes are unconstrained.',
    'level_note': 'Kani part: only the format-sniffing read (the anchor "single read" site). Native part: short reads and a breaking stream at every operation index, for reading six fixtures only; signing and the write side are not covered; one recorded finding.',
    'technique': TECH_K + ' (bounded stream schedules)',
    'parts': [K('kani:sniff_piece_sizes', 'sdk', [H('c35_sniff_independent_2_short_reads', 'bounded', '<= 2 short reads of arbitrary size, then full reads; 16 symbolic bytes'),
                                                  H('c35_sniff_independent_3_short_reads', 'bounded', '<= 3 short reads of arbitrary size, then full reads; 16 symbolic bytes', tier='thorough')],
                kind='bounded', timeout=1500, functions=[('sdk/src/jumbf_io.rs', 'container_from_stream')]),
              B('native:short_reads_and_faults', 'sdk', [{'name': 'c35_short_reads_and_injected_faults', 'tier': 'quick'}, {'name': 'c35_short_reads_signed_assets_all_formats', 'tier': 'quick'},
                                                         {'name': 'c35_sign_with_transient_source_faults', 'tier': 'quick'}], functions=[('sdk/src/reader.rs', 'with_stream'), ('sdk/src/builder.rs', 'save_to_stream')],
                bounds='reads of 6 fixtures x piece sizes {1,2,3,7,16,1000}; the stream breaking at every operation index (quick: all below 400, then every 13th); signed assets of 12 formats; signing 12 formats from a source that fails once at up to 160 (600) operation indices')],
    'trusted_base': TB_KANI,
    'rule': 'evaluations = CBMC checks decided in bounded harnesses; every one is an assertion or safety check over symbolic inputs (all counted as non-trivial)',
    'not_covered': ['short writes and faults of the DESTINATION stream while signing', 'transient faults while reading', 'formats without a fixture in the native part'],
}

PROPS['C23'] = {
    'level': 'proof',
    'level_text': 'Complete Kani harness on the real Context::check_progress (the checkpoint every phase goes through): Ok iff (no callback or it returned true) and the cancel '
                  'flag is clear; Err is OperationCancelled; the callback runs exactly once when present - for all steps and totals. Propagation through '
                  'DataHash::verify_stream_hash_with_progress is proved in Verus (hasher error returned unchanged). Propagation at the public API is a bounded stand-in.',
    'level_note': 'cross-thread cancel() timing not applicable (no thread support); Claim::verify_hash_binding is outside both verifiers and is covered by the native stand-in only.',
    'technique': TECH_K + ' (checkpoint: complete); ' + TECH_V + ' (propagation through the data-hash glue)',
    'parts': [K('kani:checkpoint', 'sdk', [H('c23_checkpoint_contract')], timeout=900, functions=[('sdk/src/context.rs', 'check_progress')],
                stubs=['std::panic::catch_unwind -> call the closure (Kani cannot compile the unwinding intrinsic)']),
              V('verus:datahash_verify', 'datahash_verify'),
              B('native:cancel_every_callback', 'sdk', [{'name': 'c23_cancel_at_every_callback', 'tier': 'quick'}, {'name': 'c23_cancel_at_every_callback_all_formats', 'tier': 'quick'}, {'name': 'c23_cancel_fragment_sidecar_ingredient', 'tier': 'quick'}],
                functions=[('sdk/src/claim.rs', 'verify_hash_binding'), ('sdk/src/ingredient.rs', 'update_validation_status'), ('sdk/src/assertions/bmff_hash.rs', 'verify_stream_segment_with_progress')],
                bounds='every callback index of a full run: reads and signs of fixtures of 13 formats (data, box and BMFF hash), fragmented read, sidecar sign and read, ingredient import and import+sign')],
    'trusted_base': TB_KANI + TB_VERUS[2:],
    'rule': 'proof obligation = CBMC check of a complete harness, or one Verus function query',
    'not_covered': ['cancel() from another thread at random delays', 'the FetchingOCSP / time-stamp checkpoints (need a live responder)', 'async flavours'],
}

PROPS['C10'] = {
    'level': 'proof',
    'level_text': 'Narrow: only the resource guards the property names. Complete Kani harnesses on the real code: BoundedVecWriter::write keeps |inner| <= max_len, '
                  'appends exactly the buffer or leaves the writer unchanged; ReaderUtils::read_to_vec fails before allocating whenever more is asked than is left, for all (len, pos, want) in u64^3; '
                  'BoxReader::read_super_box_impl refuses every depth >= MAX_JUMB_DEPTH before reading; BoxReader::read_header is total on any <= 16 bytes and decodes size / largesize.',
    'level_note': 'NOT a proof that no input panics or hangs: the proofs cover the named guards only; the format parsers are driven by a bounded native stand-in (forged size fields, tracking allocator) that is not counted as proved. sizes <= 2^20 in the writer harness.',
    'technique': TECH_K,
    'parts': [K('kani:resource_guards', 'sdk', [H('c10_bounded_writer_invariant'), H('c10_read_to_vec_guard'), H('c10_jumbf_depth_guard'), H('c10_read_header_total')], timeout=1500,
                functions=[('sdk/src/utils/io_utils.rs', 'write', r'impl Write for BoundedVecWriter \{'), ('sdk/src/utils/io_utils.rs', 'read_to_vec'),
                           ('sdk/src/jumbf/boxes.rs', 'read_header'), ('sdk/src/jumbf/boxes.rs', 'read_super_box_impl')]),
              B('native:forged_size_fields', 'sdk', [{'name': 'c10_forged_size_fields_no_panic_no_huge_allocation', 'tier': 'quick'}],
                functions=[('sdk/src/asset_handlers/riff_io.rs', 'read_cai', r'impl CAIReader for RiffIO \{')],
                bounds='1999 forged files < 200 bytes of 10 container formats (JPEG also with one APP11 / APP1 / COM segment of every content length 0..=72), size fields from 8 extreme values; own hint + every 5th with a broken signature under 13 hints; 8 MiB per-allocation limit (tracking global allocator)')],
    'trusted_base': TB_KANI,
    'rule': 'proof obligation = CBMC check of a complete harness',
    'not_covered': ['every format parser', 'stack depth', 'running time', 'CBOR / COSE / X.509 / brotli / XML decoders'],
}

PROPS['C04'] = {
    'level': 'model_checking',
    'level_text': 'Bounded Kani harnesses on the real ValidationResults::validation_state built through the public add_active_manifest / add_ingredient_delta: '
                  'state == specification from the statement for <= 2-3 entries per list and codes drawn from the three success codes, both tolerated classes, a standard failure '
                  'and an unknown code. The function is a Boolean combination of exists/forall over lists, so a dropped or inverted conjunct has a witness within these bounds.',
    'level_note': 'bounded list lengths; Reader::validation_state legacy fallback (needs a Reader) not covered.',
    'technique': TECH_K + ' (bounded)',
    'parts': [K('kani:validation_state', 'sdk', [H('c04_state_matches_spec_active_only', 'bounded', '<= 2 success and <= 2 failure codes from a 7-code universe, active manifest optional'),
                                                 H('c04_state_matches_spec_with_delta', 'bounded', '3 symbolic success codes, optional active failure, optional ingredient delta with optional failure')],
                kind='bounded', timeout=2400, unwindset=['memcmp.0:41'], functions=[('sdk/src/validation_results.rs', 'validation_state')]),
              B('native:validation_state', 'sdk', [{'name': 'c04_tolerated_code_classes', 'tier': 'quick'}, {'name': 'c04_state_matches_spec_all_small_results', 'tier': 'quick'}, {'name': 'c04_legacy_status_list_fallback', 'tier': 'quick'}],
                functions=[('sdk/src/validation_results.rs', 'is_tolerated_manifest_failure_code'), ('sdk/src/validation_results.rs', 'validation_state'), ('sdk/src/reader.rs', 'validation_state')],
                bounds='all subsets of 3 success codes x every sequence of <= 3 failures over 5 codes x up to 2 ingredient deltas (194128 results); tolerated-code classifier on 11571 strings; legacy fallback: every list of <= 3 entries over 6 codes x 2 constructions x verify_trust on/off')],
    'trusted_base': TB_KANI,
    'rule': 'evaluations = CBMC checks decided in bounded harnesses over symbolic code selections',
    'not_covered': ['how status codes are produced (validators)'],
}


T = lambda n, tier='quick': {'name': n, 'tier': tier}

PROPS['C17'] = {
    'level': 'exploration',
    'level_text': 'Bounded stand-in (not a proof): the contract "the bytes fed into leaves and remainder are exactly the concatenated payload minus the 8-byte header; every leaf has the '
                  'fixed size; remainder < fixed size" is evaluated on the real MerkleAccumulator::add_merkle_leaf for EVERY 2- and 3-way (thorough: 4-way) split of a payload, '
                  'fixed_size in {None,2,3,5}, large_size in {false,true}. The function uses HashMap/BTreeMap entry APIs: outside Verus, and CBMC did not finish (> 20 min).',
    'level_note': 'bounded: payload 20 (28) bytes with small leaf sizes exhaustively, 1 KB / 64 KB leaves on a boundary grid plus a fixed sample of multi-way splits; Builder remainder flush and "reads back Valid" not covered.',
    'technique': TECH_B,
    'parts': [B('native:add_merkle_leaf', 'sdk', [T('c17_add_merkle_leaf_all_splits'), T('c17_add_merkle_leaf_kb_leaf_sizes')], functions=[('sdk/src/utils/merkle.rs', 'add_merkle_leaf'), ('sdk/src/utils/merkle.rs', 'set_fixed_size')],
                bounds='payload 20 bytes (thorough 28), every 2/3-way (thorough 4-way) split, fixed_size in {None,2,3,5}, large_size in {false,true}; and the sizes of the statement: leaves of 1 KB and 64 KB through set_fixed_size, payload 2 leaves + 708 bytes, first cut 0..=32 x second cut within 2 bytes of the header / leaf boundaries (1 KB, thorough 64 KB: also first cut + 0..=32), plus 300/30 (thorough 2000/200) fixed-seed random 2..7-way splits (this last part is a sample, so the part is reported exhaustive=false)')],
    'trusted_base': ['rustc', 'SHA-256 of the real crate used as the oracle hash'],
    'rule': 'one evaluation = one (split, fixed_size, large_size) tuple run through the real function and compared with the contract; non-trivial = first cut strictly inside the payload',
    'not_covered': ['Builder::update_hash_from_stream remainder flush', 'BmffHash verification of the recorded leaves (validate_merkle_maps_mdat_boxes)', 'end-to-end Valid read-back'],
}

PROPS['C13'] = {
    'level': 'model_checking',
    'level_text': 'Bounded. Kani on the real hash_stream_by_alg_with_progress_impl (hasher replaced by a byte log): inclusion mode with one range UNCONSTRAINED in u64 x u64 over <= 3 bytes '
                  '(exactness, rejection past the end, no overflow, progress discipline), no exclusion-mode harness is possible (CBMC exhausts memory on range_set). '
                  'Exclusion-mode exactness and BMFF markers: bounded-exhaustive native stand-in (range_set/SmallVec is beyond CBMC), incl. read-buffer sizes 1.. (worker-thread pipelining).',
    'level_note': 'threads/channels stubbed out under Kani (paths through them cut); data <= 3 bytes under Kani, <= 5 (7) bytes natively; two recorded findings (marker corner cases) in KNOWN_FINDINGS.txt.',
    'technique': TECH_K + ' (bounded) + ' + TECH_B,
    'parts': [K('kani:range_hash', 'sdk', [H('c13_no_range_hashes_everything', 'bounded', '2 data bytes'),
                                           H('c13_inclusion_one_range', 'bounded', '<= 3 data bytes; range start and length unconstrained u64')],
                kind='bounded', timeout=1800, unwindset=['memcmp.0:8'], functions=[('sdk/src/utils/hash_utils.rs', 'hash_stream_by_alg_with_progress_impl')],
                stubs=['Hasher::update -> byte log', 'Hasher::finalize -> constant', 'thread spawn / mpsc channel / send / recv -> assume(false)', 'catch_unwind -> call']),
              B('native:range_hash_exact', 'sdk', [T('c13_range_hash_exact_small_domain'), T('c13_chunk_size_independence')], functions=[('sdk/src/utils/hash_utils.rs', 'hash_stream_by_alg_with_progress_impl')],
                bounds='data length 0..=5 (7), pairs of ranges with start,len in 0..=len+1 plus {2^32,2^63,2^64-1}, optional marker(s), both modes, buffer sizes {1,2^20} (thorough {1,2,3,2^20}; 3 algorithms); chunking: data length 1..=24 (32), one range, every buffer size 1..=length+1')],
    'trusted_base': TB_KANI + ['the reference function `reference()` in kani/hash_utils.rs (the statement, executable)'],
    'rule': 'evaluations = CBMC checks decided + native (data, ranges, mode, alg, buffer) tuples compared with the reference digest; non-trivial = at least one non-empty in-range range',
    'not_covered': ['schedules quantifier beyond what native threads happen to do', 'streams longer than 7 bytes with more than one range (one range: 32 bytes)', 'more than 3 ranges'],
}


PROPS['C12'] = {
    'level': 'exploration',
    'level_text': 'Bounded stand-in (not a proof): the contract "boxes ordered by offset, non-overlapping, inside the file, covering every byte" is evaluated on the real get_box_map of the PNG, JPEG, GIF and JPEG XL handlers '
                  'for every stream of a small grammar per format (PNG: (1..=3(4) chunks x 6 chunk types x 0..=2 data bytes x 0..=3 trailing bytes x truncations), on the sidecar handler for lengths 0..=64, '
                  'and on fixture files of JPEG/GIF/PNG/JPEG XL with bytes appended. The chunk scanner (byteorder reads, String::from_utf8, io::Error drops) timed out in CBMC twice and is outside Verus.',
    'level_note': 'trailing-bytes findings recorded in KNOWN_FINDINGS.txt (S5); JPEG/GIF/JXL parsers only on fixtures; data-hash regions (get_object_locations_from_stream) not covered.',
    'technique': TECH_B,
    'parts': [B('native:box_maps', 'sdk', [T('c12_png_box_map_small_grammar'), T('c12_jxl_box_map_small_grammar'), T('c12_jpeg_box_map_small_grammar'), T('c12_gif_box_map_small_grammar'), T('c12_sidecar_box_map'), T('c12_fixture_box_maps')],
                functions=[('sdk/src/asset_handlers/png_io.rs', 'get_png_chunk_positions'), ('sdk/src/asset_handlers/png_io.rs', 'get_box_map', r'impl AssetBoxHash for PngIO \{'),
                           ('sdk/src/asset_handlers/c2pa_io.rs', 'get_box_map', r'impl AssetBoxHash for C2paIO \{')],
                bounds='PNG grammar: 1..=3 chunks (thorough 4), 6 types, 0..=2 data bytes, 0..=3 trailing bytes, 4 truncation points (thorough: all)')],
    'trusted_base': ['rustc', 'the contract function box_map_contract in kani/png_io.rs'],
    'rule': 'one evaluation = one byte stream given to the real get_box_map; non-trivial = accepted stream that is truncated or has trailing bytes',
    'not_covered': ['streams outside the four small grammars', 'CAIWriter::get_object_locations_from_stream for formats other than PNG', 'multiple images in one JPEG'],
}

PROPS['C01'] = {
    'level': 'exploration',
    'level_text': 'Partial; three kernels under contract. (1) Verus proof on the real DataHash::verify_stream_hash_with_progress: Ok exactly when the stored hash equals the hasher outcome '
                  'for the signed algorithm and exactly the signed exclusions (hasher contract decided under C13). (2) Verus proof on the real '
                  'BoxHash::verify_stream_hash_with_progress: Ok only if the signed box list accounts for EVERY box of the handler map, in order, and every entry that is neither the C2PA box '
                  'nor declared excluded hash-compares equal over its span (for all box lists; also run natively against an oracle on 222 layouts x groupings x mutations). '
                  '(3) Kani contract vec_compare(a,b) <=> a == b for slices <= 8. The overall level is that of the weakest kernel.',
    'level_note': 'update-manifest re-basing, BMFF hash, handler-reported exclusions (except PNG under C12) and that exclusions are part of the signed bytes (C02) are not covered; collision resistance assumed.',
    'technique': TECH_V + '; ' + TECH_B + '; ' + TECH_K,
    'parts': [V('verus:datahash_verify', 'datahash_verify'), V('verus:boxhash_verify', 'boxhash_verify'),
              K('kani:vec_compare', 'sdk', [H('c01_vec_compare_contract', 'bounded', 'slices of length <= 8')], kind='bounded', timeout=900, functions=[('sdk/src/utils/hash_utils.rs', 'vec_compare')]),
              B('native:tamper_end_to_end', 'sdk', [T('c01_tamper_signed_assets_end_to_end'), T('c01_tamper_signed_assets_other_formats')], functions=[('sdk/src/claim.rs', 'verify_hash_binding'), ('sdk/src/asset_handlers/jpeg_io.rs', 'make_box_maps')],
                bounds='IMG_0003.jpg and libpng-test.png signed with data hash and box hash; ~640 mutations outside the signed exclusions (flips, appends, truncations, inserted / deleted segments and chunks); fixtures of 10 further formats (GIF, TIFF, WAV, WebP, MP3, SVG, JXL, FLAC, MP4, HEIC) with ~2450 flips / appends / truncations', timeout=3000),
              B('native:box_hash_verify', 'sdk', [T('c01_box_hash_verify_matches_oracle')], functions=[('sdk/src/assertions/box_hash.rs', 'verify_stream_hash_with_progress')],
                bounds='1..=4 source boxes over {A,B,C2PA,PNGh}, 2 bytes each, optional gap; 5 groupings; 9 mutation kinds')],
    'trusted_base': TB_VERUS + TB_KANI[1:] + ['the oracle function in kani/box_hash.rs (statement + PNGh legacy rule)'],
    'rule': 'one evaluation = one (source box layout, signed assertion) pair run through the real verifier and compared with the oracle; non-trivial = pairs the oracle accepts; plus CBMC checks of the bounded harness',
    'not_covered': ['Claim::verify_hash_binding (350 lines; update-manifest re-basing)', 'BMFF hash (bmff_hash.rs, 3 kLoC)', 'bytes after the last box of JPEG/PNG/GIF (recorded under C12)'],
}


PROPS['C29'] = {
    'level': 'exploration',
    'level_text': 'Bounded stand-in. File-system half: a ResourceStore with a base path is driven with 1557 identifiers over a tree with symlinks (inside / outside / chained / dangling): nothing outside the root is read, exported, revealed or written. Lexical half: sanitize_archive_path is compared with the reference normal form (statement: no parent components, absolute paths or backslashes survive; '
                  'output = the normal components joined by "/") for EVERY string of length <= 7 (8) over {a . / \\ : %}. Path::components made CBMC use 20 GB on 4 characters; str is outside Verus.',
    'level_note': 'one directory tree only; archive import and Reader::to_folder call sites are not driven; percent-encoded separators are treated as ordinary characters by design.',
    'technique': TECH_B,
    'parts': [B('native:sanitize_archive_path', 'sdk', [T('c29_sanitize_archive_path_all_short_strings')], functions=[('sdk/src/utils/path_utils.rs', 'sanitize_archive_path')],
                bounds='every string of length 0..=7 (thorough 8) over {a . / \\ : %}'),
              B('native:resource_store_symlinks', 'sdk_fileio', [T('c29_resource_store_confined_to_root_with_symlinks')],
                functions=[('sdk/src/resource_store.rs', 'resolve_within_root'), ('sdk/src/resource_store.rs', 'add'), ('sdk/src/resource_store.rs', 'get'), ('sdk/src/resource_store.rs', 'exists')],
                bounds='one directory tree with 7 symlinks (inside, outside, chained, dangling, absolute target); 1557 identifiers of 1..=3 components; get / write_stream / exists / path_for_id / add')],
    'trusted_base': ['rustc', 'the reference function c29_reference in kani/path_utils.rs'],
    'rule': 'one evaluation = one input string; non-trivial = strings the reference accepts',
    'not_covered': ['archive import / Reader::to_folder call sites', 'races between the check and the use (TOCTOU)', 'Windows prefixes on Windows hosts'],
}

PROPS['C34'] = {
    'level': 'exploration',
    'level_text': 'Bounded stand-in: URI builders followed by the parsers return the manifest label and the assertion / databox / credential label they were built from, relative<->absolute URIs round-trip, '
                  'and ManifestParts Display followed by manifest_label_to_parts is the identity - for every label of length <= 3 (4) over {a : . _ 1 space -}, the generated urn shapes, '
                  'every vendor <= 2 (3) over {u r n _ 1 - .} and versions / reasons in {None, 0..=20, usize::MAX}. Rust str machinery is outside Verus and costs minutes to gigabytes in CBMC.',
    'level_note': 'labels containing "/" or "=" are outside the domain (the SDK does not generate them); one recorded finding (vendor literally "urn").',
    'technique': TECH_B,
    'parts': [B('native:labels', 'sdk', [T('c34_uri_round_trips'), T('c34_manifest_parts_round_trip')],
                functions=[('sdk/src/jumbf/labels.rs', 'to_normalized_uri'), ('sdk/src/jumbf/labels.rs', 'manifest_label_from_uri'), ('sdk/src/jumbf/labels.rs', 'assertion_label_from_uri'),
                           ('sdk/src/jumbf/labels.rs', 'manifest_label_to_parts'), ('sdk/src/jumbf/labels.rs', 'to_relative_uri'), ('sdk/src/jumbf/labels.rs', 'to_absolute_uri')],
                bounds='labels <= 3 (4) chars over 7-char alphabet; vendors <= 2 (3) chars over 7-char alphabet + keywords + 32 chars; numbers {None,0..=20,usize::MAX}')],
    'trusted_base': ['rustc'],
    'rule': 'one evaluation = one (manifest label[, assertion label]) or one ManifestParts value; non-trivial = has an assertion label / a vendor or version',
    'not_covered': ['labels with "/" or "="', 'parse_label / label_with_instance in claim.rs', 'unstable_builder_filter helpers'],
}

PROPS['C31'] = {
    'level': 'exploration',
    'level_text': 'Bounded stand-in, registry only: the real PointerRegistry (Mutex<HashMap>) is run next to a model map for EVERY sequence of <= 4 (5) operations over track / validate / untrack x '
                  '4 addresses (NULL + 3) x 2 types and free x 4 addresses: results, the whole view (frame) and every cleanup counter (exactly-once, no double free) agree after every step. '
                  'Mutex is outside Verus; HashMap made CBMC intractable.',
    'level_note': 'the ~120 extern "C" wrappers and guard macros that call the registry are not covered; foreign pointers are modelled as untracked addresses.',
    'technique': TECH_B,
    'parts': [B('native:pointer_registry', 'ffi', [T('c31_registry_matches_model_all_short_sequences'), T('c31_released_handles_are_untracked_and_second_free_is_an_error'), T('c31_consuming_calls_with_aliased_handles')],
                functions=[('c2pa_c_ffi/src/cimpl/utils.rs', 'track'), ('c2pa_c_ffi/src/cimpl/utils.rs', 'validate'), ('c2pa_c_ffi/src/cimpl/utils.rs', 'untrack'), ('c2pa_c_ffi/src/cimpl/utils.rs', 'free')],
                bounds='all operation sequences of length 1..=4 (thorough 5) over 28 operations from the empty registry', timeout=3000)],
    'trusted_base': ['rustc', 'the model in kani/ffi_utils.rs'],
    'rule': 'one evaluation = one operation sequence; non-trivial = contains a track and a free of a non-null address',
    'not_covered': ['extern "C" entry points and their guard macros', 'concurrent use of the registry', 'error-message retrieval'],
}
