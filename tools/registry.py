"""Which parts decide which property.  part = dict(name, kind: proof|bounded|exhaustive, run: callable, ...)."""
import os
import verus_engine

VERIF = os.path.dirname(os.path.dirname(os.path.abspath(__file__)))

TB_COMMON = ['rustc', 'extraction rules X1-X6 + contract splicing of tools/extract.py']
TB_VERUS = TB_COMMON + ['Verus 0.2026.09.13 + Z3 (vstd models of std)', '64-bit usize']


def run_verus(part, tier, workdir, seed):
    r = verus_engine.run_unit(part['unit'], workdir, timeout=part.get('timeout', 600))
    r['backend'] = 'z3 (via verus)'
    r['samples'] = ['%s [%s ms, rlimit %s, %s]' % (f['function'], f['time_ms'], f['rlimit'], 'ok' if f['success'] else 'FAILED')
                    for f in r.get('per_function', [])][:12]
    if r['status'] == 'ok' and part.get('probe', True):
        pr = verus_engine.run_probe(part['unit'], workdir)
        r['probe'] = {k: pr[k] for k in ('probes', 'rejected', 'accepted', 'collateral')}
        if not pr['ok']:
            r['undecided'].append('vacuity probe run not as expected: accepted=%s collateral=%s undecided=%s' %
                                  (pr['accepted'], pr['collateral'], pr['undecided'][:2]))
    r.pop('linemap', None)
    return r


def V(name, unit, **kw):
    d = {'name': name, 'kind': 'proof', 'run': run_verus, 'unit': unit}
    d.update(kw)
    return d


PROPS = {}
HOOK_COMMITS = []

PROPS['C16'] = {
    'level': 'proof',
    'level_text': 'Deductive proof (Verus/Z3) over the real bodies of to_layout, generate_tree, get_proof_by_index, check_merkle_tree, hash_check: '
                  'for every leaf count, index and stored row the generated proof verifies (completeness theorem), and with index and proof fixed '
                  'no other leaf value verifies (soundness lemma, H injective). Unbounded in tree size; this is the statement no finite test run gives.',
    'level_note': 'SHA-2 uninterpreted; concat_and_hash, vec_compare, to_vec, ByteBuf assumed by contract; extraction rules X2 (step_by) and X4 (alpha-renaming) applied; from_leaves and file-level BMFF callers outside the unit.',
    'technique': 'Verus contracts (requires/ensures/loop invariants/decreases) + inductive lemmas on mechanically extracted real functions',
    'parts': [V('verus:merkle', 'merkle')],
    'trusted_base': TB_VERUS + [
        'SHA-2 is an uninterpreted function H(alg, bytes); leaf soundness additionally assumes H injective',
        'concat_and_hash(alg, l, Some(r)) == H(alg, l ++ r) (external_body; the real body is hash_by_alg over the concatenation)',
        'vec_compare(a, b) == (a == b) (external_body here; decided by Kani under C01)',
        '<[T]>::to_vec / Clone preserve contents (u8, MerkleNode)',
        'serde_bytes::ByteBuf is a newtype over Vec<u8> with Deref',
    ],
    'rule': 'obligation = one Verus function-level query (body + contract + loop invariants + termination) over real text extracted from /repo on this run',
    'not_covered': [
        'C2PAMerkleTree::from_leaves (leaf hashing via iterator adapters) and BmffHash callers that assemble MerkleMap from files',
        '"no other index or altered proof verifies": false with duplicate leaves and needs cross-level collision resistance; not claimed',
    ],
}
