#!/bin/sh
# Warm the two build caches the checks use incrementally (offline):
#   .cache/kani      cargo kani build of the c2pa crate (harness compilation)
#   .cache/playback  native test build with --cfg kani (Engine B enumerators and concrete playback), sdk + c2pa_c_ffi
here="$(cd "$(dirname "$0")/.." && pwd)"
export C2PA_VERIF_DIR="$here" CARGO_NET_OFFLINE=true CARGO_PROFILE_TEST_DEBUG=0
export PATH="$PATH:/root/.cargo/bin"
REPO="${C2PA_REPO:-/repo}"
mkdir -p "$here/.cache"
echo "[warm] kani build + one small harness (c27_v4_contract)"
(cd "$REPO/sdk" && cargo kani --target-dir "$here/.cache/kani" --no-default-features --features openssl -Z stubbing -Z function-contracts -Z unstable-options --output-format terse --harness c27_v4_contract) > "$here/.cache/warm-kani.log" 2>&1 || echo "[warm] kani warm-up failed (see .cache/warm-kani.log)"
echo "[warm] native playback build (sdk)"
(cd "$REPO/sdk" && CARGO_TARGET_DIR="$here/.cache/playback" cargo kani playback -Z concrete-playback --lib --no-default-features --features openssl -- c12_sidecar_box_map --nocapture) > "$here/.cache/warm-playback-sdk.log" 2>&1 || echo "[warm] sdk playback warm-up failed (see .cache/warm-playback-sdk.log)"
echo "[warm] native playback build (sdk, feature file_io: separate target directory)"
(cd "$REPO/sdk" && CARGO_TARGET_DIR="$here/.cache/playback_fileio" cargo kani playback -Z concrete-playback --lib --no-default-features --features openssl,file_io -- c29_nothing --nocapture) > "$here/.cache/warm-playback-fileio.log" 2>&1 || echo "[warm] sdk file_io playback warm-up failed (see .cache/warm-playback-fileio.log)"
echo "[warm] native playback build (c2pa_c_ffi)"
(cd "$REPO/c2pa_c_ffi" && CARGO_TARGET_DIR="$here/.cache/playback" cargo kani playback -Z concrete-playback --lib -- c31_nothing --nocapture) > "$here/.cache/warm-playback-ffi.log" 2>&1 || echo "[warm] ffi playback warm-up failed (see .cache/warm-playback-ffi.log)"
echo "[warm] done"
