#!/usr/bin/env python3
"""usage: run_seeded.py [seed-id ...] [--only-parts <prefix>]
For each seeded/<id>/: apply patch.diff to /repo (must be clean), run ./check <property> --tier quick for the property the
seed breaks, record the outcome in seeded/<id>/result.json, undo the patch.  Never commits to /repo."""
import json, os, subprocess, sys, time
V = os.path.dirname(os.path.dirname(os.path.abspath(__file__)))
args = sys.argv[1:]
only = None
if '--only-parts' in args:
    i = args.index('--only-parts'); only = args[i + 1]; del args[i:i + 2]
ids = args or sorted(d for d in os.listdir(V + '/seeded') if os.path.isdir(V + '/seeded/' + d))
def clean():
    return subprocess.run(['git', '-C', '/repo', 'status', '--porcelain'], capture_output=True, text=True).stdout.strip() == ''
for sid in ids:
    d = V + '/seeded/' + sid
    meta = json.load(open(d + '/meta.json'))
    props = meta.get('checks') or [meta['property']]
    if not clean():
        print('/repo is not clean; aborting'); sys.exit(2)
    a = subprocess.run(['git', '-C', '/repo', 'apply', d + '/patch.diff'], capture_output=True, text=True)
    if a.returncode != 0:
        print(sid, 'PATCH DOES NOT APPLY', a.stderr[:300]); continue
    res = {}
    try:
        for p in props:
            env = dict(os.environ)
            if only: env['VERIF_ONLY_PARTS'] = only
            t0 = time.time()
            r = subprocess.run([V + '/check', p, '--tier', meta.get('tier', 'quick')], cwd=V, capture_output=True, text=True, env=env)
            lines = [l for l in r.stdout.split('\n') if l.startswith(('VIOLATION', 'UNDECIDED', 'OK ', 'part ', '  refuted'))]
            res[p] = {'exit': r.returncode, 'wall_s': round(time.time() - t0, 1), 'lines': lines[:12], 'only_parts': only}
            print(sid, p, 'exit', r.returncode, '|', (lines[-1] if lines else '')[:160])
    finally:
        subprocess.run(['git', '-C', '/repo', 'checkout', '--', '.'])
        # evidence written while a seed was applied describes the seeded tree, not /repo: restore the committed files
        subprocess.run(['git', '-C', V, 'checkout', '--', 'evidence'])
    json.dump(res, open(d + '/result.json', 'w'), indent=1)
