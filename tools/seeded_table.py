#!/usr/bin/env python3
"""prints the markdown table of seeded changes: what they need, whether they were confirmed, which check catches them"""
import json, os, re
V = os.path.dirname(os.path.dirname(os.path.abspath(__file__)))
print('| seed | property | origin | needs to manifest | confirmed (demo passes without / fails with; suite regressions) | check result |')
print('|---|---|---|---|---|---|')
for sid in sorted(os.listdir(V + '/seeded')):
    d = V + '/seeded/' + sid
    if not os.path.isfile(d + '/meta.json'):
        continue
    m = json.load(open(d + '/meta.json'))
    conf = '-'
    if os.path.exists(d + '/confirm.log'):
        c = open(d + '/confirm.log').read()
        rc = dict(re.findall(r'rc_(\w+)=(\d+)', c))
        conf = 'without=%s with=%s suite=%s' % ('pass' if rc.get('without') == '0' else 'FAIL(' + rc.get('without', '?') + ')', 'fail' if rc.get('with', '0') != '0' else 'PASS', 'no regression' if rc.get('suite') == '0' else 'REGRESSION')
    res = '-'
    if os.path.exists(d + '/result.json'):
        r = json.load(open(d + '/result.json'))
        res = '; '.join('%s: exit %s%s' % (p, v['exit'], (' (parts: %s*)' % v['only_parts']) if v.get('only_parts') else '') for p, v in r.items())
    origin = m.get('origin', 'sub-agent')
    print('| %s | %s | %s | %s | %s | %s |' % (sid, m.get('property'), origin[:40], re.sub(r'\s+', ' ', m.get('needs_to_manifest', ''))[:160], conf, res))
