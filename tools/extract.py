#!/usr/bin/env python3
"""Engine V extractor: builds one Verus file per unit from a template plus the
CURRENT text of /repo.

A template (/verif/verus/<unit>.rs.tmpl) is Verus text (prelude, spec
functions, lemmas) with directive blocks:

    //@@ fn <repo-relative file> :: <fn name> [:: within <regex on the stripped source>]
    //@@ ret <name>                       name the result:  -> T   ==>  -> (name: T)
    //@@ vis <text>                       replace the visibility prefix (e.g. `pub`)
    //@@ x2 <n>                           rule X2 (step_by desugaring) must fire exactly n times
    //@@ subst <n> `old` => `new`         declared textual rule, must fire exactly n times (code regions only)
    //@@ resub <n> `regex` => `new`       the same with a (whitespace-tolerant) regular expression; line count preserved by padding
    //@@ rename <old> <new> [from `<anchor>`]   rule X4 (alpha-renaming to a fresh name)
    //@@ x7 <k>                           rule X7 (`for x in &v {` with `continue` => index loop) on loop number k
    //@@ x5 <n>                           rule X5 (#[async_generic] sync expansion: `if _sync {A} else {B}` => `{A}`), n times
    //@@ cfg <feature>=on|off             rule X6 (resolve cfg(feature) attributes inside the function)
    //@@ name <new>                       rename the extracted fn itself (for a second instantiation of the same source)
    //@@ spec                             following lines go between signature and body
    //@@ loop <k> [iter <binder>]         following lines go between the head of loop #k and its body
    //@@ bodystart                        following lines go right after the opening brace of the body
    //@@ before <occ> `<anchor>`          following (ghost) lines go before the occ-th body line starting with anchor
    //@@ after <occ> `<anchor>`           ... after that line
    //@@ end

    //@@ struct <file> :: <Name> :: fields a,b,c   (rule X3: struct reduced to the listed fields, X1 attributes dropped)
    //@@ const <file> :: <NAME>                    (a `const NAME: T = ..;` item copied verbatim)

    //@@ probe / //@@ endprobe            lines only present in the vacuity-probe variant of the file

Function items are copied byte for byte from /repo; only the declared rules
touch executable tokens.  Anything that cannot be located raises ExtractError,
which the driver reports as UNDECIDED (exit 2), never as a violation.
"""
import hashlib
import re
import sys


class ExtractError(Exception):
    pass


def strip_map(src):
    """same-length copy of src with comments, strings and char literals blanked"""
    out = list(src)
    i = 0
    n = len(src)

    def blank(a, b):
        for k in range(a, min(b, n)):
            if out[k] != '\n':
                out[k] = ' '
    while i < n:
        c = src[i]
        if src.startswith('//', i):
            j = src.find('\n', i)
            j = n if j < 0 else j
            blank(i, j)
            i = j
        elif src.startswith('/*', i):
            depth = 1
            j = i + 2
            while j < n and depth > 0:
                if src.startswith('/*', j):
                    depth += 1
                    j += 2
                elif src.startswith('*/', j):
                    depth -= 1
                    j += 2
                else:
                    j += 1
            blank(i, j)
            i = j
        elif c == '"' or (c == 'b' and src.startswith('b"', i) and not (i > 0 and (src[i-1].isalnum() or src[i-1] == '_'))):
            j = i + (2 if c == 'b' else 1)
            while j < n and src[j] != '"':
                j += 2 if src[j] == '\\' else 1
            blank(i, j + 1)
            i = j + 1
        elif c == 'r' and re.match(r'r#*"', src[i:i + 12]) and not (i > 0 and (src[i-1].isalnum() or src[i-1] == '_')):
            m = re.match(r'r(#*)"', src[i:])
            end = '"' + m.group(1)
            j = src.find(end, i + len(m.group(0)))
            if j < 0:
                j = n
            blank(i, j + len(end))
            i = j + len(end)
        elif c == "'":
            m = re.match(r"'(\\.[^']*|[^'\\])'", src[i:i + 16])
            if m:
                blank(i, i + len(m.group(0)))
                i += len(m.group(0))
            else:
                i += 1
        elif c == 'b' and src.startswith("b'", i) and not (i > 0 and (src[i-1].isalnum() or src[i-1] == '_')):
            m = re.match(r"b'(\\.[^']*|[^'\\])'", src[i:i + 16])
            if m:
                blank(i, i + len(m.group(0)))
                i += len(m.group(0))
            else:
                i += 1
        else:
            i += 1
    return ''.join(out)


def match_close(code, o, open_c='{', close_c='}'):
    d = 0
    for k in range(o, len(code)):
        if code[k] == open_c:
            d += 1
        elif code[k] == close_c:
            d -= 1
            if d == 0:
                return k
    raise ExtractError('unbalanced %s at %d' % (open_c, o))


def find_fn(src, code, name, within=None):
    """-> (start incl. visibility, body_open, body_close) of `fn name`"""
    lo, hi = 0, len(src)
    if within:
        m = re.search(within, code)
        if not m:
            raise ExtractError('within-pattern not found: %s' % within)
        o = code.index('{', m.end() - 1)
        lo, hi = o, match_close(code, o)
    ms = list(re.finditer(r'\bfn\s+' + re.escape(name) + r'\b', code[lo:hi]))
    # keep definitions that have a body (skip trait declarations `fn x(..);`)
    cands = []
    for m in ms:
        s = lo + m.start()
        semi = code.find(';', s)
        o = code.find('{', s)
        if o < 0:
            continue
        # a `;` before `{` at paren depth 0 means a declaration without body
        seg = code[s:o]
        depth = 0
        decl = False
        for ch in seg:
            if ch in '([':
                depth += 1
            elif ch in ')]':
                depth -= 1
            elif ch == ';' and depth == 0:
                decl = True
                break
        if decl:
            continue
        cands.append((s, o))
    if not cands:
        raise ExtractError('fn %s not found' % name)
    if len(cands) > 1:
        raise ExtractError('fn %s ambiguous (%d definitions); add a within-pattern' % (name, len(cands)))
    s, o = cands[0]
    c = match_close(code, o)
    # extend start backwards over `pub`, `pub(crate)`, `async`, `const`, `unsafe` on the same item
    line_start = src.rfind('\n', 0, s) + 1
    prefix = code[line_start:s]
    if re.fullmatch(r'\s*((pub(\([^)]*\))?|async|const|unsafe)\s+)*', prefix):
        s = line_start + (len(prefix) - len(prefix.lstrip()))
    return s, o, c


X2_RE = re.compile(r'for\s+(\w+)\s+in\s+\(([^\n]+?)\.\.([^\n]+?)\)\.step_by\(([^\n]+?)\)\s*\{')


def apply_x2(text):
    fired = [0]

    def sub(m):
        fired[0] += 1
        P, A, B, K = m.group(1), m.group(2).strip(), m.group(3).strip(), m.group(4).strip()
        return ('let mut __n = %s; while __n < %s { let %s = __n; __n = if %s - __n > %s { __n + %s } else { %s };'
                % (A, B, P, B, K, K, B))
    code = strip_map(text)
    # only rewrite matches that are in code regions
    out = []
    last = 0
    for m in X2_RE.finditer(text):
        if code[m.start():m.start() + 3] != 'for':
            continue
        out.append(text[last:m.start()])
        out.append(sub(m))
        last = m.end()
    out.append(text[last:])
    return ''.join(out), fired[0]


def apply_subst(text, old, new):
    if old.count('\n') != new.count('\n'):
        raise ExtractError('subst must preserve line count: %r' % old)
    code = strip_map(text)
    out = []
    last = 0
    n = 0
    i = text.find(old)
    while i >= 0:
        # must start in a code region (first non-space char of old is code)
        k = i + (len(old) - len(old.lstrip()))
        if code[k] == text[k]:
            out.append(text[last:i])
            out.append(new)
            last = i + len(old)
            n += 1
            i = text.find(old, last)
        else:
            i = text.find(old, i + 1)
    out.append(text[last:])
    return ''.join(out), n


def _blank(s):
    return ''.join(ch if ch == '\n' else ' ' for ch in s)


def apply_x5(text):
    """rule X5: the sync expansion of #[async_generic]: `if _sync { A } else { B }` => `{ A }`"""
    n = 0
    while True:
        code = strip_map(text)
        m = re.search(r'\bif\s+_sync\s*\{', code)
        if not m:
            break
        o = m.end() - 1
        c = match_close(code, o)
        m2 = re.match(r'\s*else\s*\{', code[c + 1:])
        if not m2:
            raise ExtractError('X5: `if _sync` without else block')
        o2 = c + 1 + m2.end() - 1
        c2 = match_close(code, o2)
        text = text[:m.start()] + _blank(text[m.start():o]) + text[o:c + 1] + _blank(text[c + 1:c2 + 1]) + text[c2 + 1:]
        n += 1
    if re.search(r'\b_sync\b', strip_map(text)):
        raise ExtractError('X5: unsupported use of _sync')
    return text, n


def apply_cfg(text, feature, on):
    """rule X6: resolve #[cfg(feature = "f")] / #[cfg(not(feature = "f"))] on blocks, statements and tail expressions"""
    n = 0
    pat = re.compile(r'#\[cfg\((not\()?feature\s*=\s*"' + re.escape(feature) + r'"\)?\)\]')
    pos = 0
    while True:
        # attribute text contains a string literal, so search the raw text and check the `#` is code
        code = strip_map(text)
        m = pat.search(text, pos)
        if not m:
            break
        if code[m.start()] != '#':
            pos = m.end()
            continue
        keep = on != bool(m.group(1))
        k = m.end()
        while code[k].isspace():
            k += 1
        if keep:
            text = text[:m.start()] + _blank(text[m.start():m.end()]) + text[m.end():]
        else:
            if code[k] == '{':
                e = match_close(code, k) + 1
            else:
                if re.match(r'(if|match|for|while|loop)\b', code[k:]):
                    raise ExtractError('X6: cfg on a compound statement is not supported')
                depth = 0
                e = k
                while e < len(code):
                    ch = code[e]
                    if ch in '([{':
                        depth += 1
                    elif ch in ')]}':
                        if depth == 0:
                            break
                        depth -= 1
                    elif ch == ';' and depth == 0:
                        e += 1
                        break
                    e += 1
            text = text[:m.start()] + _blank(text[m.start():e]) + text[e:]
        n += 1
        pos = m.start() + 1
    return text, n


def apply_x7(text, k):
    """rule X7: `for P in &E {` (loop number k of the function) => `let mut __iK = 0; while __iK < E.len() { let P = &E[__iK];
    __iK += 1;` - Verus' for loops do not support `continue`; the increment at the loop head keeps its meaning"""
    heads = loop_heads(text)
    if k >= len(heads):
        raise ExtractError('X7: loop #%d not found' % k)
    kw, brace = heads[k]
    m = re.match(r'for\s+(\w+)\s+in\s+&([^\n{]+?)\s*$', text[kw:brace])
    if m:
        P, E = m.group(1), m.group(2).strip()
        new = 'let mut __i%d = 0; while __i%d < %s.len() { let %s = &%s[__i%d]; __i%d += 1;' % (k, k, E, P, E, k, k)
        return text[:kw] + new + text[brace + 1:]
    # array literal of Copy values: `for P in [a, b, c] {`
    m = re.match(r'for\s+(\w+)\s+in\s+(\[[^\n{]+?\])\s*$', text[kw:brace])
    if not m:
        raise ExtractError('X7: loop #%d is not of the form `for x in &expr {` or `for x in [..] {`' % k)
    P, E = m.group(1), m.group(2).strip()
    new = 'let __a%d = %s; let mut __i%d = 0; while __i%d < __a%d.len() { let %s = __a%d[__i%d]; __i%d += 1;' % (k, E, k, k, k, P, k, k, k)
    return text[:kw] + new + text[brace + 1:]


def apply_resub(text, pat, repl):
    """declared textual rule with a regular expression (whitespace-tolerant); the replacement is padded with the
    newlines of the matched text so that line numbers are preserved"""
    code = strip_map(text)
    out = []
    last = 0
    n = 0
    for m in re.finditer(pat, text):
        if code[m.start()] != text[m.start()]:
            continue   # match starts inside a comment or string
        out.append(text[last:m.start()])
        r = m.expand(repl)
        missing = m.group(0).count('\n') - r.count('\n')
        if missing < 0:
            raise ExtractError('resub replacement has more lines than the match')
        out.append(r + '\n' * missing)
        last = m.end()
        n += 1
    out.append(text[last:])
    return ''.join(out), n


def apply_rename(text, old, new, anchor):
    """rule X4: alpha-rename identifier `old` to the fresh name `new`; with an anchor the renaming
    starts at the binding on the first line that starts with the anchor (Rust shadowing scope)"""
    code = strip_map(text)
    if re.search(r'\b' + re.escape(new) + r'\b', code):
        raise ExtractError('rename target %s is not fresh' % new)
    pat = re.compile(r'(?<![\w.])' + re.escape(old) + r'\b(?!\s*::)')
    start = 0
    first_only_until = 0
    if anchor:
        pos = 0
        found = None
        for ln in text.split('\n'):
            if ln.strip().startswith(anchor):
                q = pos + (len(ln) - len(ln.lstrip()))
                if not code[q].isspace():
                    found = (pos, pos + len(ln))
                    break
            pos += len(ln) + 1
        if not found:
            raise ExtractError('rename anchor `%s` not found (lost anchor)' % anchor)
        start, first_only_until = found
    out = []
    last = 0
    n = 0
    done_first = False
    for m in pat.finditer(code):
        if m.start() < start:
            continue
        if m.start() < first_only_until:
            if done_first:
                continue
            done_first = True
        # `.old` field accesses are excluded by the look-behind; struct-literal shorthand is not handled
        out.append(text[last:m.start()])
        out.append(new)
        last = m.end()
        n += 1
    out.append(text[last:])
    if n == 0:
        raise ExtractError('rename %s: nothing to rename' % old)
    return ''.join(out), n


LOOP_RE = re.compile(r'\b(while|loop|for)\b')


def loop_heads(text):
    """[(keyword_pos, brace_pos)] for every loop in text (code regions only)"""
    code = strip_map(text)
    res = []
    for m in LOOP_RE.finditer(code):
        # skip `for<'a>` HRTB and `impl X for Y`
        after = code[m.end():m.end() + 1]
        if m.group(1) == 'for' and after == '<':
            continue
        depth = 0
        k = m.end()
        brace = None
        while k < len(code):
            ch = code[k]
            if ch in '([':
                depth += 1
            elif ch in ')]':
                depth -= 1
            elif ch == '{' and depth == 0:
                brace = k
                break
            elif ch == ';' and depth == 0:
                break
            k += 1
        if brace is not None:
            res.append((m.start(), brace))
    return res


class FnBlock:
    def __init__(self, file, name, within):
        self.file, self.name, self.within = file, name, within
        self.ret = None
        self.vis = None
        self.x2 = 0
        self.substs = []      # (n, old, new)
        self.renames = []     # (old, new, from_anchor or None)
        self.resubs = []      # (n, regex, replacement)
        self.x7 = []          # loop ordinals to desugar: for P in &E {..}  =>  index loop
        self.newname = None
        self.x5 = None        # expected number of `if _sync` reductions
        self.cfgs = []        # (feature, on?)
        self.spec = []
        self.loops = {}       # k -> (binder, [lines])
        self.bodystart = []
        self.anchors = []     # (kind, occ, anchor, [lines])


def render_fn(repo, blk, tmpl_line):
    path = repo + '/' + blk.file
    try:
        src = open(path).read()
    except OSError as e:
        raise ExtractError('cannot read %s: %s' % (blk.file, e))
    code = strip_map(src)
    s, o, c = find_fn(src, code, blk.name, blk.within)
    orig = src[s:c + 1]
    first_line = src.count('\n', 0, s) + 1
    sha = hashlib.sha256(orig.encode()).hexdigest()
    info = {'file': blk.file, 'item': blk.name, 'lines': [first_line, src.count('\n', 0, c) + 1],
            'sha256': sha, 'rules': {}}
    text = orig
    text, fired = apply_x2(text)
    if fired != blk.x2:
        raise ExtractError('%s::%s: rule X2 fired %d times, unit records %d' % (blk.file, blk.name, fired, blk.x2))
    if fired:
        info['rules']['X2'] = fired
    if blk.x5 is not None:
        text, k = apply_x5(text)
        # the recorded count documents the tree the unit was written against; the rule itself is the same for any number
        # of `if _sync` sites (each keeps its sync branch), so a different non-zero count is not an extraction failure
        if k == 0 and blk.x5 != 0:
            raise ExtractError('%s::%s: rule X5 fired %d times, unit records %d' % (blk.file, blk.name, k, blk.x5))
        info['rules']['X5'] = k
    for (feat, on) in blk.cfgs:
        text, k = apply_cfg(text, feat, on)
        if k == 0:
            raise ExtractError('%s::%s: rule X6 found no cfg(feature = "%s")' % (blk.file, blk.name, feat))
        info['rules'].setdefault('X6', []).append({'feature': feat, 'on': on, 'fired': k})
    for (n, old, new) in blk.substs:
        text, k = apply_subst(text, old, new)
        if k != n:
            raise ExtractError('%s::%s: subst %r fired %d times, unit records %d' % (blk.file, blk.name, old, k, n))
        info['rules'].setdefault('subst', []).append({'old': old, 'new': new, 'fired': k})
    for k7 in sorted(blk.x7, reverse=True):
        text = apply_x7(text, k7)
        info['rules'].setdefault('X7', []).append(k7)
    for (n, pat, repl) in blk.resubs:
        text, k = apply_resub(text, pat, repl)
        if k != n:
            raise ExtractError('%s::%s: resub %r fired %d times, unit records %d' % (blk.file, blk.name, pat, k, n))
        info['rules'].setdefault('subst', []).append({'regex': pat, 'new': repl, 'fired': k})
    for (old, new, anchor) in blk.renames:
        text, k = apply_rename(text, old, new, anchor)
        info['rules'].setdefault('X4', []).append({'old': old, 'new': new, 'from': anchor, 'fired': k})
    tcode = strip_map(text)
    body_open = None
    # the body brace: first `{` at paren depth 0 after the parameter list
    depth = 0
    for k, ch in enumerate(tcode):
        if ch in '([':
            depth += 1
        elif ch in ')]':
            depth -= 1
        elif ch == '{' and depth == 0:
            body_open = k
            break
    if body_open is None:
        raise ExtractError('no body for %s' % blk.name)
    sig = text[:body_open]
    body = text[body_open:]
    sig_lines = sig.count('\n')
    # signature edits
    if blk.newname:
        sig, k = re.subn(r'\bfn\s+' + re.escape(blk.name) + r'\b', 'fn ' + blk.newname, sig, count=1)
        info['rules']['renamed_item'] = blk.newname
    if blk.vis is not None:
        m = re.match(r'\s*(pub(\([^)]*\))?\s+)?', sig)
        sig = blk.vis + (' ' if blk.vis else '') + sig[m.end():]
    if blk.ret:
        scode = strip_map(sig)
        p = scode.index('(', scode.index(blk.newname or blk.name))
        q = match_close(scode, p, '(', ')')
        rest = sig[q + 1:]
        m = re.match(r'(\s*->\s*)(.*?)(\s*(\bwhere\b.*)?)$', rest, re.S)
        if not m:
            raise ExtractError('%s: no return type to name' % blk.name)
        sig = sig[:q + 1] + m.group(1) + '(' + blk.ret + ': ' + m.group(2).strip() + ')' + m.group(3)
    if sig.count('\n') != sig_lines:
        raise ExtractError('%s: signature edit changed the line count' % blk.name)
    # insertions into the body: list of (pos, text, tag)
    ins = []
    bcode = strip_map(body)
    heads = loop_heads(body)
    for k, (binder, lines) in blk.loops.items():
        if k >= len(heads):
            raise ExtractError('%s: loop #%d not found (function has %d loops)' % (blk.name, k, len(heads)))
        kw, brace = heads[k]
        if binder:
            m = re.match(r'for\s+(.+?)\s+in\s+', body[kw:brace], re.S)
            if not m:
                raise ExtractError('%s: loop #%d is not a for loop (binder requested)' % (blk.name, k))
            ins.append((kw + m.end(), binder + ': ', 'loop#%d.binder' % k))
        ins.append((brace, '\n' + '\n'.join(lines) + '\n', 'loop#%d' % k))
    info['loops'] = len(heads)
    if blk.bodystart:
        ins.append((1, '\n' + '\n'.join(blk.bodystart) + '\n', 'bodystart'))
    # anchors: body lines
    offs = []
    pos = 0
    for ln in body.split('\n'):
        offs.append((pos, ln))
        pos += len(ln) + 1
    for (kind, occ, anchor, lines) in blk.anchors:
        hits = []
        for (p, ln) in offs:
            if not ln.strip().startswith(anchor):
                continue
            q = p + (len(ln) - len(ln.lstrip()))
            if q < len(bcode) and not bcode[q].isspace():   # starts in a code region
                hits.append((p, ln))
        if occ >= len(hits):
            raise ExtractError('%s: anchor `%s` occurrence %d not found (lost anchor)' % (blk.name, anchor, occ))
        p, ln = hits[occ]
        if kind == 'before':
            ins.append((p, '\n'.join(lines) + '\n', 'ghost@' + anchor))
        else:
            ins.append((p + len(ln) + 1, '\n'.join(lines) + '\n', 'ghost@' + anchor))
    ins.sort(key=lambda t: t[0])
    # emit with origins
    segs = []  # (text, origin)
    segs.append((sig, ('src', 0)))
    if blk.spec:
        segs.append(('\n' + '\n'.join(blk.spec) + '\n', ('spec', 'contract')))
    last = 0
    for (p, t, tag) in ins:
        segs.append((body[last:p], ('src', sig_lines + body.count('\n', 0, last))))
        segs.append((t, ('spec', tag)))
        last = p
    segs.append((body[last:], ('src', sig_lines + body.count('\n', 0, last))))
    out_lines = []   # (text, origin dict)
    cur = ''
    cur_origin = None
    for (t, org) in segs:
        base = org[1] if org[0] == 'src' else None
        nl = 0
        for ch in t:
            if cur_origin is None and not ch.isspace():
                if org[0] == 'src':
                    cur_origin = {'kind': 'src', 'file': blk.file, 'line': first_line + base + nl, 'fn': blk.name}
                else:
                    cur_origin = {'kind': 'spec', 'tag': org[1], 'fn': blk.name, 'tmpl_line': tmpl_line}
            if ch == '\n':
                out_lines.append((cur, cur_origin or {'kind': 'blank', 'fn': blk.name}))
                cur = ''
                cur_origin = None
                nl += 1
            else:
                cur += ch
    if cur:
        out_lines.append((cur, cur_origin or {'kind': 'blank', 'fn': blk.name}))
    return out_lines, info


def render_struct(repo, file, name, fields):
    src = open(repo + '/' + file).read()
    code = strip_map(src)
    m = re.search(r'\bstruct\s+' + re.escape(name) + r'\b[^;{(]*\{', code)
    if not m:
        raise ExtractError('struct %s not found in %s' % (name, file))
    o = m.end() - 1
    c = match_close(code, o)
    inner = src[o + 1:c]
    icode = code[o + 1:c]
    # split at top-level commas
    parts = []
    depth = 0
    last = 0
    for k, ch in enumerate(icode):
        if ch in '<([{':
            depth += 1
        elif ch in '>)]}':
            if ch == '>' and k > 0 and icode[k - 1] == '-':
                continue
            depth -= 1
        elif ch == ',' and depth == 0:
            parts.append((last, k))
            last = k + 1
    parts.append((last, len(icode)))
    kept = []
    found = set()
    for (a, b) in parts:
        seg_code = icode[a:b]
        # drop attributes
        seg_nc = re.sub(r'#\[[^\]]*\]', lambda mm: ' ' * len(mm.group(0)), seg_code)
        mm = re.search(r'(pub(\([^)]*\))?\s+)?(\w+)\s*:\s*(.+)$', seg_nc.strip(), re.S)
        if not mm:
            continue
        fname = mm.group(3)
        if fname in fields:
            found.add(fname)
            ty = ' '.join(mm.group(4).split())
            kept.append('    pub %s: %s,' % (fname, ty))
    missing = [f for f in fields if f not in found]
    if missing:
        raise ExtractError('struct %s: fields not found: %s' % (name, missing))
    total = len([p for p in parts if icode[p[0]:p[1]].strip()])
    generics = src[m.start():o]
    generics = generics[generics.index(name) + len(name):].strip()
    text = 'pub struct %s%s {\n%s\n}' % (name, generics, '\n'.join(kept))
    line = src.count('\n', 0, m.start()) + 1
    info = {'file': file, 'item': 'struct ' + name, 'lines': [line, src.count('\n', 0, c) + 1],
            'sha256': hashlib.sha256(src[m.start():c + 1].encode()).hexdigest(),
            'rules': {'X3': {'kept': sorted(found), 'dropped_fields': total - len(found)}, 'X1': 'attributes dropped'}}
    return [(l, {'kind': 'src', 'file': file, 'line': line, 'fn': 'struct ' + name}) for l in text.split('\n')], info


def render_const(repo, file, name):
    src = open(repo + '/' + file).read()
    code = strip_map(src)
    m = re.search(r'(pub(\([^)]*\))?\s+)?const\s+' + re.escape(name) + r'\s*:[^;]*;', code)
    if not m:
        raise ExtractError('const %s not found in %s' % (name, file))
    text = src[m.start():m.end()]
    line = src.count('\n', 0, m.start()) + 1
    info = {'file': file, 'item': 'const ' + name, 'lines': [line, line + text.count('\n')],
            'sha256': hashlib.sha256(text.encode()).hexdigest(), 'rules': {}}
    if re.search(r':\s*&str\b', text):
        # rule X8: inside verus! a const of type &str needs its (implied) 'static lifetime spelled out
        text = re.sub(r':\s*&str\b', ": &'static str", text, count=1)
        info['rules']['X8'] = "&str -> &'static str"

    return [(l, {'kind': 'src', 'file': file, 'line': line + i, 'fn': 'const ' + name}) for i, l in enumerate(text.split('\n'))], info


DIR = '//@@'


def generate(repo, tmpl_path, probe=False):
    """-> (text, linemap[list per generated line], items[list of info], assumptions[list])"""
    lines = open(tmpl_path).read().split('\n')
    out = []       # (text, origin)
    items = []
    i = 0
    in_probe = False
    while i < len(lines):
        ln = lines[i]
        st = ln.strip()
        if st.startswith(DIR):
            d = st[len(DIR):].strip()
            if d == 'probe':
                in_probe = True
                i += 1
                continue
            if d == 'endprobe':
                in_probe = False
                i += 1
                continue
            if d.startswith('struct '):
                parts = [p.strip() for p in d[len('struct '):].split('::')]
                fields = [f.strip() for f in parts[2].replace('fields', '').split(',') if f.strip()]
                ol, info = render_struct(repo, parts[0], parts[1], fields)
                out.extend(ol)
                items.append(info)
                i += 1
                continue
            if d.startswith('line '):
                parts = [q.strip() for q in d[len('line '):].split(' :: ', 1)]
                src = open(repo + '/' + parts[0]).read()
                code = strip_map(src)
                hit = None
                pos = 0
                for k, sl in enumerate(src.split('\n')):
                    if sl.strip() == parts[1] and code[pos:pos + len(sl)].strip() != '':
                        hit = k + 1
                        break
                    pos += len(sl) + 1
                if hit is None:
                    raise ExtractError('line not found in %s: %s' % (parts[0], parts[1]))
                out.append((parts[1], {'kind': 'src', 'file': parts[0], 'line': hit, 'fn': parts[1]}))
                items.append({'file': parts[0], 'item': parts[1], 'lines': [hit, hit],
                              'sha256': hashlib.sha256(parts[1].encode()).hexdigest(), 'rules': {}})
                i += 1
                continue
            if d.startswith('consts '):
                # every module-level scalar / &str constant of the file (so that code which starts to use another one is
                # still decided instead of rejected)
                f = d[len('consts '):].strip()
                src = open(repo + '/' + f).read()
                code = strip_map(src)
                n = 0
                for m in re.finditer(r'^(pub(\([^)]*\))?\s+)?const\s+([A-Z][A-Z0-9_]*)\s*:\s*(usize|u8|u16|u32|u64|u128|isize|i32|i64|bool|&str|&\'static str)\s*=\s*([^;\n]*);', code, re.M):
                    text = src[m.start():m.end()]
                    text = re.sub(r':\s*&str\b', ": &'static str", text, count=1)
                    line = src.count('\n', 0, m.start()) + 1
                    out.append((text, {'kind': 'src', 'file': f, 'line': line, 'fn': 'const ' + m.group(3)}))
                    n += 1
                items.append({'file': f, 'item': 'module-level scalar constants', 'lines': [0, 0], 'sha256': '', 'rules': {'copied': n}})
                i += 1
                continue
            if d.startswith('const '):
                parts = [p.strip() for p in d[len('const '):].split('::')]
                ol, info = render_const(repo, parts[0], parts[1])
                out.extend(ol)
                items.append(info)
                i += 1
                continue
            if d.startswith('fn '):
                parts = [p.strip() for p in d[3:].split(' :: ')]
                within = None
                if len(parts) > 2 and parts[2].startswith('within '):
                    within = parts[2][len('within '):].strip()
                blk = FnBlock(parts[0], parts[1], within)
                start_line = i + 1
                i += 1
                cur = None
                while i < len(lines):
                    l2 = lines[i]
                    s2 = l2.strip()
                    if s2.startswith(DIR):
                        d2 = s2[len(DIR):].strip()
                        if d2 == 'end':
                            break
                        elif d2.startswith('ret '):
                            blk.ret = d2[4:].strip()
                            cur = None
                        elif d2.startswith('vis'):
                            blk.vis = d2[3:].strip()
                            cur = None
                        elif d2.startswith('x2 '):
                            blk.x2 = int(d2[3:])
                            cur = None
                        elif d2.startswith('name '):
                            blk.newname = d2[5:].strip()
                            cur = None
                        elif d2.startswith('x7 '):
                            blk.x7.append(int(d2[3:]))
                            cur = None
                        elif d2.startswith('x5 '):
                            blk.x5 = int(d2[3:])
                            cur = None
                        elif d2.startswith('cfg '):
                            m = re.match(r'cfg\s+(\w+)=(on|off)$', d2)
                            if not m:
                                raise ExtractError('bad cfg directive at template line %d' % (i + 1))
                            blk.cfgs.append((m.group(1), m.group(2) == 'on'))
                            cur = None
                        elif d2.startswith('subst '):
                            m = re.match(r'subst\s+(\d+)\s+`(.*)`\s*=>\s*`(.*)`$', d2)
                            if not m:
                                raise ExtractError('bad subst directive at template line %d' % (i + 1))
                            blk.substs.append((int(m.group(1)), m.group(2), m.group(3)))
                            cur = None
                        elif d2.startswith('resub '):
                            m = re.match(r'resub\s+(\d+)\s+`(.*)`\s*=>\s*`(.*)`$', d2)
                            if not m:
                                raise ExtractError('bad resub directive at template line %d' % (i + 1))
                            blk.resubs.append((int(m.group(1)), m.group(2), m.group(3)))
                            cur = None
                        elif d2.startswith('rename '):
                            m = re.match(r'rename\s+(\w+)\s+(\w+)(\s+from\s+`(.*)`)?$', d2)
                            if not m:
                                raise ExtractError('bad rename directive at template line %d' % (i + 1))
                            blk.renames.append((m.group(1), m.group(2), m.group(4)))
                            cur = None
                        elif d2 == 'spec':
                            cur = blk.spec
                        elif d2.startswith('loop '):
                            m = re.match(r'loop\s+(\d+)(\s+iter\s+(\w+))?$', d2)
                            if not m:
                                raise ExtractError('bad loop directive at template line %d' % (i + 1))
                            lst = []
                            blk.loops[int(m.group(1))] = (m.group(3), lst)
                            cur = lst
                        elif d2 == 'bodystart':
                            cur = blk.bodystart
                        elif d2.startswith('before ') or d2.startswith('after '):
                            m = re.match(r'(before|after)\s+(\d+)\s+`(.*)`$', d2)
                            if not m:
                                raise ExtractError('bad anchor directive at template line %d' % (i + 1))
                            lst = []
                            blk.anchors.append((m.group(1), int(m.group(2)), m.group(3), lst))
                            cur = lst
                        else:
                            raise ExtractError('unknown directive at template line %d: %s' % (i + 1, d2))
                    else:
                        if cur is None:
                            if s2:
                                raise ExtractError('text outside a section at template line %d' % (i + 1))
                        else:
                            cur.append(l2)
                    i += 1
                else:
                    raise ExtractError('unterminated fn block starting at template line %d' % start_line)
                ol, info = render_fn(repo, blk, start_line)
                out.extend(ol)
                items.append(info)
                i += 1
                continue
            raise ExtractError('unknown directive at template line %d: %s' % (i + 1, d))
        if in_probe and not probe:
            i += 1
            continue
        out.append((ln, {'kind': 'probe' if in_probe else 'tmpl', 'tmpl_line': i + 1}))
        i += 1
    text = '\n'.join(t for t, _ in out) + '\n'
    linemap = [o for _, o in out]
    # name the enclosing fn for template lines
    cur_fn = None
    for (t, o) in out:
        if o.get('kind') in ('tmpl', 'probe'):
            m = re.search(r'\bfn\s+(\w+)', t)
            if m and not t.strip().startswith('//'):
                cur_fn = m.group(1)
            o['fn'] = cur_fn
    return text, linemap, items


ASSUME_PATTERNS = [
    (r'#\[verifier::external_body\]', 'external_body'),
    (r'\bassume_specification\b', 'assume_specification'),
    (r'\bassume\s*\(', 'assume'),
    (r'\badmit\s*\(', 'admit'),
    (r'#\[verifier::external\b', 'external'),
    (r'\buninterp\s+spec\s+fn\b', 'uninterpreted spec fn'),
    (r'#\[verifier::external_trait_specification\]', 'external_trait_specification'),
    (r'#\[verifier::external_type_specification\]', 'external_type_specification'),
    (r'#\[verifier::accept_recursive_types', 'accept_recursive_types'),
]


def scan_assumptions(text):
    """mechanical scan: every trusted declaration in the generated file"""
    code = strip_map(text)
    lines = text.split('\n')
    clines = code.split('\n')
    res = []
    for idx, cl in enumerate(clines):
        for pat, kind in ASSUME_PATTERNS:
            if re.search(pat, cl):
                # describe by the next line that has a fn/struct/trait name
                desc = ''
                for j in range(idx, min(idx + 6, len(lines))):
                    m = re.search(r'\b(fn|struct|trait|type)\s+(\w+)|assume_specification[^\[]*\[([^\]]+\]?[^\]]*)\]', clines[j])
                    if m:
                        desc = (m.group(2) or m.group(3) or '').strip()
                        break
                res.append('%s: %s (generated line %d)' % (kind, desc, idx + 1))
    return res


if __name__ == '__main__':
    import json
    text, linemap, items = generate(sys.argv[1], sys.argv[2], probe='--probe' in sys.argv)
    sys.stdout.write(text)
    sys.stderr.write(json.dumps(items, indent=1) + '\n')
