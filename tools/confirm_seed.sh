#!/bin/sh
# usage: confirm_seed.sh <seed dir with patch.diff, demo.diff, meta.json> [worktree]
# Confirms in a scratch worktree (never /repo): (1) builds + baseline suite has no regression with the change,
# (2) the demonstration fails with the change, (3) passes without it.  Writes <seed dir>/confirm.log
s="$(cd "$1" && pwd)"; wt="${2:-/tmp/wt/confirm}"
cd "$wt" || exit 2
git checkout -q -- . && git clean -fdq -e target
demo_cmd="$(python3 -c "import json;print(json.load(open('$s/meta.json'))['demo_command'])" | sed "s#/tmp/wt/[A-Za-z0-9_-]*#$wt#g")"
{
echo "== demo command: $demo_cmd"
git apply "$s/demo.diff" || { echo "DEMO DIFF DOES NOT APPLY"; exit 2; }
echo "== (3) demonstration WITHOUT the change"
sh -c "$demo_cmd" > "$s/demo_without.log" 2>&1; echo "rc_without=$?"
git apply "$s/patch.diff" || { echo "PATCH DOES NOT APPLY"; exit 2; }
echo "== (2) demonstration WITH the change"
sh -c "$demo_cmd" > "$s/demo_with.log" 2>&1; echo "rc_with=$?"
echo "== (1) full suite WITH the change (demo reverted)"
git apply -R "$s/demo.diff"
cargo nextest run --workspace --no-fail-fast --offline --test-threads 8 > "$s/suite_with_change.log" 2>&1
python3 /verif/tools/baseline_compare.py "$s/suite_with_change.log"; echo "rc_suite=$?"
git checkout -q -- . && git clean -fdq -e target
} > "$s/confirm.log" 2>&1
tail -12 "$s/confirm.log"
