#!/usr/bin/env python3
"""writes MANIFEST.json from tools/registry.py (claimed checks) and tools/not_applicable.py"""
import json, os, sys
V = os.path.dirname(os.path.dirname(os.path.abspath(__file__)))
sys.path.insert(0, V + '/tools')
import registry, not_applicable
ids = [json.loads(l)['id'] for l in open(V + '/properties.jsonl')]
checks = []
for pid in ids:
    if pid not in registry.PROPS:
        continue
    p = registry.PROPS[pid]
    checks.append({
        'property_id': pid,
        'quick_cmd': './check %s --tier quick' % pid,
        'thorough_cmd': './check %s --tier thorough' % pid,
        'evidence_file': 'evidence/%s.json' % pid,
        'replay_cmd_template': './check %s --replay {path}' % pid,
        'engine': ' + '.join(sorted(set(pt['name'].split(':')[0] for pt in p['parts']))),
        'level_claimed': {'category': p['level'], 'text': p['level_text'], 'design_ref': 'DESIGN.md section 5, ' + pid},
        'level_note': p['level_note'],
        'technique': p['technique'],
    })
na = []
for pid in ids:
    if pid in registry.PROPS:
        continue
    na.append({'property_id': pid, 'reason': not_applicable.REASONS[pid]})
m = {
    'version': 1,
    'setup_cmd': './setup.sh',
    'hooks': {
        'guard': 'cfg(kani)',
        'enable': 'cargo kani / cargo kani playback (they pass --cfg kani) with C2PA_VERIF_DIR=/verif; each hook is `#[cfg(kani)] mod verif_kani { include!(concat!(env!("C2PA_VERIF_DIR"), "/kani/<unit>.rs")); }`',
        'baseline_off_cmd': 'cd /repo && (cargo nextest run --workspace --no-fail-fast --tool-config-file pb:/w/lib/nextest.toml --profile pb --test-threads 8 --offline || cargo test --workspace --no-fail-fast --offline)',
        'source_commits': registry.HOOK_COMMITS,
        'add_only': True,
    },
    'engines': [
        {'name': 'verus', 'path': 'tools/verus_engine.py + tools/extract.py + verus/*.rs.tmpl',
         'serves_properties': sorted(p for p in registry.PROPS if any(pt['name'].startswith('verus') for pt in registry.PROPS[p]['parts'])),
         'kind_free_text': 'contract-based deductive verification: Verus on real function text extracted mechanically from /repo on every run'},
        {'name': 'kani', 'path': 'tools/kani_engine.py + kani/*.rs',
         'serves_properties': sorted(p for p in registry.PROPS if any(pt['name'].startswith('kani') for pt in registry.PROPS[p]['parts'])),
         'kind_free_text': 'Kani/CBMC contracts and harnesses compiled inside the real crate (complete where loop-free over unconstrained inputs, otherwise labelled bounded)'},
        {'name': 'native', 'path': 'tools/native_engine.py + kani/*.rs (#[test] enumerators)',
         'serves_properties': sorted(p for p in registry.PROPS if any(pt['name'].startswith('native') for pt in registry.PROPS[p]['parts'])),
         'kind_free_text': 'bounded stand-in: the same contract text evaluated exhaustively over a stated finite domain on the real code'},
    ],
    'checks': checks,
    'not_applicable': na,
    'notes': 'exit 2 + UNDECIDED line = tool limit / lost anchor / build failure (never an alarm). KNOWN_FINDINGS.txt lists recorded defects. See DESIGN.md.',
}
json.dump(m, open(V + '/MANIFEST.json', 'w'), indent=1)
print('checks:', [c['property_id'] for c in checks], 'n/a:', len(na))
