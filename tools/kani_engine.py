"""Engine K: Kani harnesses compiled inside the real crate (hook: #[cfg(kani)] mod verif_kani { include!(...) }).

One `cargo kani` invocation per part; every harness of the part is a separate CBMC run.  Outcomes per harness:
  SUCCESSFUL               -> discharged (all checks of the harness, incl. Kani's safety checks and unwinding assertions)
  FAILED with failed checks -> refuted obligations (violation), counterexample requested with concrete playback
  anything else (timeout, crash, out of memory, compile error, unsatisfied cover) -> undecided
"""
import os
import re
import signal
import subprocess
import time

VERIF = os.path.dirname(os.path.dirname(os.path.abspath(__file__)))
REPO = os.environ.get('C2PA_REPO', '/repo')
KANI_TARGET = os.path.join(VERIF, '.cache', 'kani')

CRATES = {
    'sdk': {'dir': 'sdk', 'args': ['--no-default-features', '--features', 'openssl']},
    'ffi': {'dir': 'c2pa_c_ffi', 'args': []},
    'sdk_fileio': {'dir': 'sdk', 'args': ['--no-default-features', '--features', 'openssl,file_io'], 'target_suffix': '_fileio'},
}


def _env():
    e = dict(os.environ)
    e['C2PA_VERIF_DIR'] = VERIF
    e['CARGO_NET_OFFLINE'] = 'true'
    e['CARGO_PROFILE_TEST_DEBUG'] = '0'
    e['PATH'] = e.get('PATH', '') + ':/root/.cargo/bin'
    return e


def kani_cmd(crate, harnesses, unwindset=None, extra=None, playback=False, jobs=None):
    c = CRATES[crate]
    cmd = ['cargo', 'kani', '--target-dir', KANI_TARGET] + c['args'] + \
          ['-Z', 'stubbing', '-Z', 'function-contracts', '-Z', 'unstable-options']
    if playback:
        cmd += ['-Z', 'concrete-playback', '--concrete-playback=print']
    if jobs and jobs > 1:
        cmd += ['-j', str(jobs), '--output-format', 'terse']
    for h in harnesses:
        cmd += ['--harness', h]
    cmd += ['--exact'] if False else []
    if extra:
        cmd += extra
    if unwindset:
        cmd += ['--cbmc-args', '--unwindset', ','.join(unwindset)]
    return cmd, os.path.join(REPO, c['dir'])


def run_cmd(cmd, cwd, timeout, log_path, mem_gb=None):
    """run with a timeout, kill the whole process group on expiry; returns (rc or None on timeout, output)"""
    pre = None
    if mem_gb:
        import resource

        def pre():
            os.setsid()
            lim = int(mem_gb * (1 << 30))
            resource.setrlimit(resource.RLIMIT_AS, (lim, lim))
    else:
        pre = os.setsid
    with open(log_path, 'w') as lf:
        p = subprocess.Popen(cmd, cwd=cwd, env=_env(), stdout=lf, stderr=subprocess.STDOUT, preexec_fn=pre)
        try:
            rc = p.wait(timeout=timeout)
        except subprocess.TimeoutExpired:
            try:
                os.killpg(p.pid, signal.SIGKILL)
            except Exception:
                pass
            p.wait()
            rc = None
    return rc, open(log_path, errors='replace').read()


HARNESS_RE = re.compile(r'^Checking harness (\S+?)\.\.\.\s*$', re.M)


def _split_threads(out):
    """-j mode: 'Thread N: Checking harness X...' then later 'Thread N: ' + result block -> [name, text, ...]"""
    cur = {}
    blocks = {}
    order = []
    active = None
    for ln in out.split('\n'):
        m = re.match(r'^Thread (\d+): Checking harness (\S+?)\.\.\.\s*$', ln)
        if m:
            cur[m.group(1)] = m.group(2)
            blocks[m.group(2)] = []
            order.append(m.group(2))
            active = None
            continue
        m = re.match(r'^Thread (\d+):(.*)$', ln)
        if m:
            active = cur.get(m.group(1))
            if active is not None:
                blocks[active].append(m.group(2))
            continue
        if re.match(r'^(Manual Harness Summary|Summary:|Complete - )', ln):
            active = None
            continue
        if active is not None:
            blocks[active].append(ln)
    parts = ['']
    for n in order:
        parts += [n, '\n'.join(blocks[n])]
    return parts


def parse_output(out):
    """split the kani output per harness -> {harness: {status, checks, failed[], covers{}, time, text}}"""
    res = {}
    if re.search(r'^Thread \d+: Checking harness', out, re.M):
        parts = _split_threads(out)
    else:
        parts = HARNESS_RE.split(out)
    # parts = [pre, name1, text1, name2, text2, ...]
    for i in range(1, len(parts), 2):
        name = parts[i]
        text = parts[i + 1]
        short = name.split('::')[-1]
        d = {'name': name, 'status': 'unknown', 'checks': 0, 'failed_checks': [], 'covers': {}, 'time_s': None,
             'playback': None, 'text_tail': text[-3000:]}
        m = re.search(r'\*\* (\d+) of (\d+) failed', text)
        if m:
            d['checks'] = int(m.group(2))
            d['n_failed'] = int(m.group(1))
        m = re.search(r'\*\* (\d+) of (\d+) cover properties satisfied', text)
        if m:
            d['covers_sat'] = int(m.group(1))
            d['covers_total'] = int(m.group(2))
        if re.search(r'VERIFICATION:- SUCCESSFUL', text):
            d['status'] = 'success'
        elif re.search(r'VERIFICATION:- FAILED', text):
            d['status'] = 'failed'
        m = re.search(r'Verification Time: ([0-9.]+)s', text)
        if m:
            d['time_s'] = float(m.group(1))
        # individual checks
        for cm in re.finditer(r'Check \d+: (\S+)\n\s+- Status: (\w+)\n\s+- Description: "(.*?)"\n(?:\s+- Location: (.*?)\n)?', text):
            cid, st, desc, loc = cm.group(1), cm.group(2), cm.group(3), cm.group(4)
            if '.cover.' in cid or st in ('SATISFIED', 'UNSATISFIABLE'):
                d['covers'][desc] = st
            if st == 'FAILURE':
                d['failed_checks'].append({'check': cid, 'description': desc, 'location': loc})
        # "Failed Checks:" summary (terse mode)
        if not d['failed_checks']:
            for fm in re.finditer(r'Failed Checks: (.*?)\n\s*File: "(.*?)", line (\d+)', text):
                d['failed_checks'].append({'check': '', 'description': fm.group(1), 'location': '%s:%s' % (fm.group(2), fm.group(3))})
        pm = re.search(r'(#\[test\]\s*\n\s*fn kani_concrete_playback_.*?\n\})', text, re.S)
        if pm:
            d['playback'] = pm.group(1)
        if re.search(r'CBMC failed|out of memory|std::bad_alloc|Killed|memory exhausted|CBMC timed out|panicked at', text) and d['status'] != 'success':
            if not d['failed_checks'] or re.search(r'std::bad_alloc|out of memory|CBMC timed out', text):
                d['status'] = 'crashed'
        res[short] = d
    return res


def classify_failed(check):
    """is a failed CBMC check a refuted obligation (True) or a tool limit (False)?"""
    desc = check['description']
    # unwinding assertions and unsupported-construct markers are tool limits, never a violation
    if re.search(r'unwinding assertion|is not currently supported|unsupported|Kani does not support|reachability of unsupported', desc, re.I):
        return False
    return True


def function_items(funcs):
    """[(file, fn[, within])] -> evidence entries with the SHA-256 of the current function text"""
    import hashlib
    import extract
    items = []
    for f in funcs:
        file, name = f[0], f[1]
        within = f[2] if len(f) > 2 else None
        try:
            src = open(os.path.join(REPO, file)).read()
            code = extract.strip_map(src)
            s, o, c = extract.find_fn(src, code, name, within)
            items.append({'file': file, 'item': name, 'lines': [src.count('\n', 0, s) + 1, src.count('\n', 0, c) + 1],
                          'sha256': hashlib.sha256(src[s:c + 1].encode()).hexdigest()})
        except Exception as e:
            items.append({'file': file, 'item': name, 'error': str(e)})
    return items


def run_part(part, tier, workdir, seed):
    """part keys: crate, harnesses: [{name, kind: complete|bounded, bounds, covers_required: bool}], unwindset, timeout, jobs"""
    t0 = time.time()
    hs = [h for h in part['harnesses'] if tier == 'thorough' or h.get('tier', 'quick') == 'quick']
    names = [h['name'] for h in hs]
    res = {'engine': 'kani', 'backend': 'cbmc 6.11 + kissat (via kani 0.68)', 'status': 'undecided', 'obligations': 0,
           'discharged': 0, 'failures': [], 'undecided': [], 'samples': [], 'harnesses': [], 'evaluations': 0,
           'distinct_nontrivial': 0, 'assumptions': [], 'items': part.get('items', []), 'stubs': part.get('stubs', [])}
    res['items'] = function_items(part.get('functions', []))
    unwindset = part.get('unwindset_thorough') if tier == 'thorough' and part.get('unwindset_thorough') else part.get('unwindset')
    cmd, cwd = kani_cmd(part['crate'], names, unwindset, part.get('extra'), playback=False, jobs=part.get('jobs', min(8, len(names))))
    res['checker_cmd'] = 'cd %s && C2PA_VERIF_DIR=%s CARGO_NET_OFFLINE=true %s' % (cwd, VERIF, ' '.join(cmd))
    os.makedirs(workdir, exist_ok=True)
    log = os.path.join(workdir, 'kani-%s.log' % part['name'].replace(':', '_'))
    timeout = part.get('timeout_thorough', part.get('timeout', 1500)) if tier == 'thorough' else part.get('timeout', 1500)
    # the registered timeouts were measured on an idle 16-core machine; they only guard against hangs, so they are
    # scaled generously: a slow (loaded) machine must not turn a check into UNDECIDED
    timeout = int(timeout * float(os.environ.get('VERIF_TIMEOUT_FACTOR', '3')))
    rc, out = run_cmd(cmd, cwd, timeout, log, mem_gb=part.get('mem_gb', 40))
    res['wall_s'] = time.time() - t0
    res['tool_output'] = out[-4000:]
    if rc is None:
        res['undecided'].append('cargo kani timed out after %ds (log %s)' % (timeout, log))
        return res
    per = parse_output(out)
    if not per:
        m = re.search(r'(error(\[E\d+\])?:.*?)(\n\n|\Z)', out, re.S)
        res['undecided'].append('no harness result (rc=%s): %s' % (rc, (m.group(1) if m else out[-800:])[:800]))
        return res
    solver = 0.0
    for h in hs:
        d = per.get(h['name'])
        if d is None:
            res['undecided'].append('harness %s produced no result' % h['name'])
            continue
        solver += d.get('time_s') or 0
        entry = {'harness': h['name'], 'kind': h.get('kind', 'complete'), 'bounds': h.get('bounds'), 'status': d['status'],
                 'checks': d['checks'], 'time_s': d['time_s'], 'covers': d['covers']}
        res['harnesses'].append(entry)
        if d['status'] == 'success':
            bad_cov = [c for c, st in d['covers'].items() if st != 'SATISFIED']
            if d.get('covers_total') is not None and d.get('covers_sat') != d.get('covers_total'):
                bad_cov.append('%s of %s cover properties satisfied' % (d.get('covers_sat'), d.get('covers_total')))
            if bad_cov:
                res['undecided'].append('harness %s: cover not satisfied (vacuity guard): %s' % (h['name'], bad_cov[:3]))
                continue
            if h.get('kind', 'complete') == 'complete':
                res['obligations'] += d['checks']
                res['discharged'] += d['checks']
            else:
                res['evaluations'] += d['checks']
                res['distinct_nontrivial'] += max(0, d['checks'])
            res['samples'].append('%s: %d checks SUCCESSFUL in %.1fs%s' % (h['name'], d['checks'], d['time_s'] or 0,
                                                                         (' [bounded: %s]' % h['bounds']) if h.get('bounds') else ''))
        elif d['status'] == 'failed':
            real = [c for c in d['failed_checks'] if classify_failed(c)]
            limits = [c for c in d['failed_checks'] if not classify_failed(c)]
            if limits:
                res['undecided'].append('harness %s: tool limit: %s' % (h['name'], limits[0]['description'][:200]))
            if real and not limits:
                if h.get('kind', 'complete') == 'complete':
                    res['obligations'] += d['checks']
                    res['discharged'] += d['checks'] - d.get('n_failed', len(real))
                for c in real[:5]:
                    res['failures'].append({'obligation': 'kani::%s::%s' % (h['name'], c['description'][:100]),
                                            'message': 'CBMC: FAILURE %s at %s' % (c['check'], c['location']),
                                            'function': h['name'], 'harness': h['name']})
            if not real and not limits:
                res['undecided'].append('harness %s FAILED without a parsable failed check' % h['name'])
        else:
            res['undecided'].append('harness %s: %s (log %s)' % (h['name'], d['status'], log))
    res['solver_time_s'] = round(solver, 2)
    # counterexamples for refuted harnesses: second run with concrete playback
    failed_h = sorted(set(f['harness'] for f in res['failures']))
    if failed_h:
        cmd2, _ = kani_cmd(part['crate'], failed_h, unwindset, part.get('extra'), playback=True, jobs=1)
        log2 = log + '.playback'
        rc2, out2 = run_cmd(cmd2, cwd, timeout, log2)
        per2 = parse_output(out2) if rc2 is not None else {}
        for f in res['failures']:
            d2 = per2.get(f['harness'])
            if d2 and d2.get('playback'):
                f['input'] = d2['playback']
                f['replay'] = 'paste the test into kani/replay_slot.rs of the unit and run: cargo kani playback -Z concrete-playback --lib ... -- <test name>'
    if res['undecided']:
        res['status'] = 'undecided'
    elif res['failures']:
        res['status'] = 'fail'
    else:
        res['status'] = 'ok'
    return res
