#!/usr/bin/env python3
"""validate MANIFEST.json and evidence files against the schemas (python3-vt has jsonschema)"""
import json, sys, glob, os
import jsonschema
V = os.path.dirname(os.path.dirname(os.path.abspath(__file__)))
ok = True
try:
    jsonschema.validate(json.load(open(V + '/MANIFEST.json')), json.load(open('/root/.vp/MANIFEST.schema.json')))
    print('MANIFEST ok')
except Exception as e:
    ok = False; print('MANIFEST INVALID', str(e)[:500])
es = json.load(open('/root/.vp/EVIDENCE.schema.json'))
for f in sorted(glob.glob(V + '/evidence/*.json')):
    try:
        jsonschema.validate(json.load(open(f)), es); print(os.path.basename(f), 'ok')
    except Exception as e:
        ok = False; print(f, 'INVALID', str(e)[:500])
sys.exit(0 if ok else 1)
