#!/bin/sh
# run every claimed check (quick tier by default) on the current tree and validate the evidence files
cd "$(dirname "$0")/.."
tier="${1:-quick}"
rc=0
for p in $(python3 -c "import json;print(' '.join(c['property_id'] for c in json.load(open('MANIFEST.json'))['checks']))"); do
  out=$(./check $p --tier $tier 2>&1); r=$?
  echo "$p exit=$r $(echo "$out" | tail -1 | cut -c1-150)"
  [ $r -ne 0 ] && rc=1
done
python3-vt tools/validate.py | grep -v " ok$"
exit $rc
