#!/bin/sh
# run every claimed check (quick tier by default) on the current tree and validate the evidence files
# usage: run_all.sh [tier] [parallel jobs, default 1]
cd "$(dirname "$0")/.."
tier="${1:-quick}"
jobs="${2:-1}"
props=$(python3 -c "import json;print(' '.join(c['property_id'] for c in json.load(open('MANIFEST.json'))['checks']))")
mkdir -p .work
rm -f .work/run_all.*.out
echo $props | tr ' ' '\n' | xargs -P "$jobs" -I{} sh -c './check {} --tier '"$tier"' > .work/run_all.{}.out 2>&1; echo "{} exit=$? $(tail -1 .work/run_all.{}.out | cut -c1-150)"' | tee .work/run_all.summary
python3-vt tools/validate.py | grep -v " ok$"
if grep -qv "exit=0 " .work/run_all.summary; then exit 1; fi
exit 0
