"""check driver: runs the parts registered for a property, classifies, writes evidence, sets the exit code.

exit 0  every obligation discharged / every bounded part passed / vacuity guards fine
exit 1  + `VIOLATION property=<id> replay=<path>`  a contract obligation is refuted (and is not a listed known finding)
exit 2  + `UNDECIDED property=<id> reason=...`     tool limit, lost anchor, timeout, build failure: never an alarm
"""
import json
import os
import re
import sys
import time

VERIF = os.path.dirname(os.path.dirname(os.path.abspath(__file__)))
sys.path.insert(0, os.path.join(VERIF, 'tools'))

import registry  # noqa: E402

LEVEL_ORDER = ['exploration', 'model_checking', 'proof']


def load_known_findings():
    """KNOWN_FINDINGS.txt lines:  finding: property=<id> key=<regex> :: <what fails>
                                   fixed: property=<id> <commit> <what failed>      (suppresses nothing)"""
    res = []
    path = os.path.join(VERIF, 'KNOWN_FINDINGS.txt')
    if not os.path.exists(path):
        return res
    for ln in open(path):
        ln = ln.strip()
        m = re.match(r'finding:\s+property=(\S+)\s+key=(\S+)\s+::\s+(.*)$', ln)
        if m:
            res.append({'property': m.group(1), 'key': m.group(2), 'text': m.group(3)})
    return res


def main(argv):
    if len(argv) < 2:
        print('usage: check <ID> [--tier quick|thorough] | check <ID> --replay <path>')
        return 2
    pid = argv[1]
    tier = os.environ.get('VERIF_TIER', 'quick')
    replay = None
    i = 2
    while i < len(argv):
        if argv[i] == '--tier':
            tier = argv[i + 1]
            i += 2
        elif argv[i] == '--replay':
            replay = argv[i + 1]
            i += 2
        else:
            i += 1
    if tier not in ('quick', 'thorough'):
        tier = 'quick'
    seed = int(os.environ.get('VERIF_SEED', '0') or 0)
    if pid not in registry.PROPS:
        print('UNDECIDED property=%s reason=not-claimed' % pid)
        return 2
    if replay:
        return do_replay(pid, replay)
    prop = registry.PROPS[pid]
    t0 = time.time()
    workdir = os.path.join(VERIF, '.work', pid)
    os.makedirs(workdir, exist_ok=True)
    results = []
    only = os.environ.get('VERIF_ONLY_PARTS')   # development aid: run only the parts whose name starts with this
    for part in prop['parts']:
        if tier == 'quick' and part.get('tier') == 'thorough':
            continue
        if only and not any(part['name'].startswith(o) for o in only.split(',')):
            continue
        r = part['run'](part, tier, workdir, seed)
        r['part'] = part['name']
        r['kind'] = part['kind']          # proof | bounded | exhaustive
        results.append(r)
    wall = time.time() - t0
    known = [k for k in load_known_findings() if k['property'] == pid]
    failures, known_hits, undecided = [], [], []
    for r in results:
        for f in r.get('failures', []):
            key = f.get('obligation', '')
            hit = None
            for k in known:
                if re.fullmatch(k['key'], key) or re.search(k['key'], key):
                    hit = k
                    break
            if hit:
                known_hits.append((hit, f))
            else:
                failures.append((r, f))
        for u in r.get('undecided', []):
            undecided.append('%s: %s' % (r['part'], u))
    # ---- evidence
    ev = build_evidence(pid, prop, tier, seed, results, wall, failures, known_hits, undecided)
    os.makedirs(os.path.join(VERIF, 'evidence'), exist_ok=True)
    # a development run of selected parts must not replace the evidence of a full run
    ev_path = os.path.join(workdir, 'evidence-partial.json') if only else os.path.join(VERIF, 'evidence', pid + '.json')
    with open(ev_path, 'w') as fh:
        json.dump(ev, fh, indent=1)
    # ---- report
    seen = set()
    for hit, f in known_hits:
        if hit['key'] in seen:
            continue
        seen.add(hit['key'])
        print('KNOWN-FINDING: property=%s %s' % (pid, hit['text']))
    for r in results:
        print('part %-28s %-8s %-10s obligations=%d discharged=%d failures=%d undecided=%d (%.1fs)' % (
            r['part'], r.get('engine'), r['kind'], r.get('obligations', 0), r.get('discharged', 0),
            len(r.get('failures', [])), len(r.get('undecided', [])), r.get('wall_s', 0)))
    if failures:
        os.makedirs(os.path.join(VERIF, 'replays'), exist_ok=True)
        path = os.path.join(VERIF, 'replays', '%s-%s-%d.json' % (pid, tier, int(time.time())))
        no_input = not any(f.get('input') for _, f in failures)
        with open(path, 'w') as fh:
            json.dump({'property': pid, 'tier': tier,
                       'failed_obligations': [
                           {'part': r['part'], 'engine': r.get('engine'), 'obligation': f.get('obligation'),
                            'message': f.get('message'), 'function': f.get('function'), 'src': f.get('src'),
                            'clause': f.get('clause'), 'input': f.get('input'), 'replay': f.get('replay'),
                            'checker_cmd': r.get('checker_cmd')} for r, f in failures],
                       'verifier_output': {r['part']: r.get('verus_output') or r.get('tool_output', '')
                                           for r, _ in failures}}, fh, indent=1)
        for r, f in failures[:10]:
            print('  refuted: %s -- %s%s' % (f.get('obligation'), f.get('message'),
                                             (' input=' + str(f.get('input'))[:300]) if f.get('input') else ''))
        print('VIOLATION property=%s replay=%s%s' % (pid, path, ' no-failing-input-found' if no_input else ''))
        return 1
    if undecided:
        for u in undecided[:10]:
            print('  undecided: %s' % u[:600])
        print('UNDECIDED property=%s reason=%s' % (pid, re.sub(r'\s+', ' ', undecided[0])[:300]))
        return 2
    print('OK property=%s tier=%s wall=%.1fs' % (pid, tier, wall))
    return 0


def build_evidence(pid, prop, tier, seed, results, wall, failures, known_hits, undecided):
    level = prop['level']
    proof_parts = [r for r in results if r['kind'] == 'proof']
    other_parts = [r for r in results if r['kind'] != 'proof']
    cov = {}
    obligations = sum(r.get('obligations', 0) for r in proof_parts)
    discharged = sum(r.get('discharged', 0) for r in proof_parts)
    evaluations = sum(r.get('evaluations', 0) for r in other_parts)
    nontrivial = sum(r.get('distinct_nontrivial', 0) for r in other_parts)
    samples = []
    for r in results:
        samples.extend(r.get('samples', [])[:6])
    if level == 'proof':
        cov.update({'obligations': obligations, 'discharged': discharged})
    else:
        cov.update({'evaluations': evaluations, 'distinct_nontrivial': nontrivial})
        if proof_parts:
            cov['complete_parts'] = {'obligations': obligations, 'discharged': discharged,
                                     'parts': [r['part'] for r in proof_parts]}
    if level != 'proof' and proof_parts:
        pass
    elif level == 'proof' and other_parts:
        cov['bounded_parts_not_counted_as_proved'] = {
            'evaluations': evaluations, 'distinct_nontrivial': nontrivial, 'parts': [r['part'] for r in other_parts]}
    cov['checker_cmd'] = ' ; '.join(r.get('checker_cmd', '') for r in results if r.get('checker_cmd'))
    cov['trusted_base'] = prop.get('trusted_base', [])
    cov['rule'] = prop.get('rule', '')
    cov['samples'] = samples or ['(no samples produced)']
    cov['exhaustive'] = bool(other_parts) and all(r.get('exhaustive') for r in other_parts)
    cov['parts'] = [{
        'part': r['part'], 'engine': r.get('engine'), 'kind': r['kind'], 'backend': r.get('backend'),
        'status': r.get('status'), 'obligations': r.get('obligations', 0), 'discharged': r.get('discharged', 0),
        'evaluations': r.get('evaluations'), 'distinct_nontrivial': r.get('distinct_nontrivial'),
        'bounds': r.get('bounds'), 'solver_time_s': r.get('solver_time_s'), 'wall_s': round(r.get('wall_s', 0), 2),
        'per_function': r.get('per_function'), 'covers': r.get('covers'), 'probe': r.get('probe'),
        'stubs': r.get('stubs'), 'harnesses': r.get('harnesses'),
    } for r in results]
    cov['functions_under_contract'] = [it for r in results for it in r.get('items', [])]
    cov['solver_time_s'] = round(sum((r.get('solver_time_s') or 0) for r in results), 3)
    cov['not_covered'] = prop.get('not_covered', [])
    cov['failed_obligations'] = [f.get('obligation') for _, f in failures]
    cov['known_findings_hit'] = sorted(set(h['key'] for h, _ in known_hits))
    cov['undecided'] = undecided
    assumptions = list(prop.get('assumptions', []))
    for r in results:
        assumptions.extend(r.get('assumptions', []))
    return {'property_id': pid, 'tier': tier, 'seed': seed, 'level': level, 'coverage': cov,
            'assumptions': assumptions, 'wall_s': round(wall, 2), 'violations': len(failures)}


def do_replay(pid, path):
    try:
        d = json.load(open(path))
    except Exception as e:
        print('cannot read replay file: %s' % e)
        return 2
    print(json.dumps(d, indent=1)[:6000])
    # replay = re-check, on the current tree, exactly the parts whose obligations are named in the replay file
    # (native parts re-run the recorded input class on the real code; Verus / Kani parts re-discharge the obligation)
    parts = sorted(set(f.get('part') for f in d.get('failed_obligations', []) if f.get('part')))
    if not parts:
        print('replay file names no part')
        return 2
    print('replaying parts: %s' % ', '.join(parts))
    os.environ['VERIF_ONLY_PARTS'] = ','.join(parts)
    return main([sys.argv[0], pid, '--tier', d.get('tier', 'quick')])


if __name__ == '__main__':
    sys.exit(main(sys.argv))
